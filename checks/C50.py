"""C50 — ACME client never reuses a nonce and bounds its retries.

Spec: spec/AcmeNonce.tla (nonce pool under noncesMu, HEAD newNonce + fallback, signed POST,
addNonce / clearNonces, retry loop with RetryBackoff budget, context cancellation, results
tagged with the serial of the reply they derive from).

 (1) TLC model-checks N1 (fresh issued nonce on every POST), N2 (POSTs per post() call bounded by
     the back-off budget, nothing sent after cancellation), N3 (result corresponds to the last
     reply), N4 (pool cap) exhaustively (thorough: one operation with reply scripts up to 7, two and three; quick: two operations, scripts up to 3, and the one-operation generator instance)
     concurrent operations sharing the pool with smaller scripts (bounds fitted to measured state
     counts), incl. an instance with capacity 1 so the cap is exercised.
 (2) binding R: AcmeNonce_Gen emits every complete single-operation behaviour (reply scripts up to
     4 (quick) / 6 (thorough), budgets {0,1,3}, 1-3 post() phases, with/without newNonce URL, pool empty/primed);
     harness/c50 TestReplay plays each against the REAL acme.Client through its public API and
     compares POST counts, nonce freshness, cancellation and the returned value/error.
 (3) binding T: the event logs recorded by the fake server for those replays, for seeded random
     CONCURRENT sessions (goroutines sharing one client, -race) and for long sequential sessions
     are validated by AcmeNonce_Trace (with the real pool capacity 100).
 (4) default back-off (RetryBackoff nil) in virtual time: Retry-After honoured, 10 s ceiling,
     context deadline ends the retries.
"""
import json, os, random
import vlib

INV = "TypeOK N1_FreshNonces N1_Discipline N2_Bounded N2_Cancel N3_LastReply N4_PoolCap MutexOK"


def _load_traces(path):
    tr = []
    with open(path) as fh:
        for line in fh:
            line = line.strip()
            if line:
                tr.append(json.loads(line))
    return tr


def _sample(ctx, traces, max_events):
    """a seeded sample of the recorded traces bounded by max_events events"""
    rnd = random.Random(ctx.seed * 7919 + len(traces))
    idx = list(range(len(traces)))
    rnd.shuffle(idx)
    chosen, n = [], 0
    for i in idx:
        if n + len(traces[i]) > max_events and chosen:
            break
        chosen.append(traces[i]); n += len(traces[i])
    return chosen


def _validate(ctx, traces, what, max_events):
    chosen = _sample(ctx, traces, max_events)
    n = sum(len(t) for t in chosen)
    ok = ctx.validate_traces("AcmeNonce_Trace", chosen, sig_prefix="c50-trace-rejected", timeout=1500, max_rejects=3)
    ctx.log("%s: %d/%d recorded traces (%d events) validated by AcmeNonce_Trace, %d accepted" % (what, len(chosen), len(traces), n, ok))
    return len(chosen)


def run(ctx):
    ctx.level = "model_checking"
    ctx.rule = ("replay cases = complete single-operation behaviours of AcmeNonce enumerated by TLC (all reply scripts up to the bound x "
                "budget x phases x newNonce-URL x primed pool), each played through a public acme.Client operation; distinct = distinct "
                "(operation, configuration, HEAD reply script, POST reply script, cancel point); concurrent/long sessions = seeded random "
                "scripts, one recorded trace each, validated by AcmeNonce_Trace")
    ctx.assumptions = [
        "the server (environment) never issues the same nonce twice",
        "a request whose context is already cancelled is refused by the transport and does not count as sent (net/http.Transport behaviour, emulated by the fake RoundTripper)",
        "operations are attributed to callers through the request context (a request without the caller's context is reported)",
        "Client.KID is pre-set, so the hidden account lookup of accountKID is not part of the scripts",
        "virtual time (testing/synctest) for sequential replays; concurrent sessions run in real time with -race and are judged only by nonce checks and trace validation, never by timing",
    ]
    if ctx.replay:
        rep = json.load(open(ctx.replay))
        d = (rep.get("violation") or {}).get("detail") or {}
        if isinstance(d, dict) and d.get("case"):
            res = ctx.go_test("c50", "TestReplay", cases=[d["case"]], env={"C50_ALL_OPS": "1"}, timeout=300)
            ctx.absorb(res)
            return
        ctx.notes.append("replay file carries no single case; running the whole tier")

    # ---- (1) exhaustive model checking
    # quick: two operations with scripts <= 3 (62 k states); the one-operation instance is checked inside the
    # generator run below (its config carries the invariants).  thorough: the large instances.
    mcs = ["MC1", "MC2q", "MC2cap", "MC2t", "MC2deep", "MC3"] if ctx.thorough else ["MC2quick"]
    if os.environ.get("VERIF_SKIP_MC"):          # development aid for mutation runs; recorded in the evidence
        mcs = []
        ctx.skipped.append("VERIF_SKIP_MC set: exhaustive model checking skipped")
    for m in mcs:
        r = ctx.tlc_must_hold("AcmeNonce_MC", cfg="AcmeNonce_%s.cfg" % m, timeout=1500)
        ctx.log("%s: %d distinct states" % (m, r.distinct))

    # ---- (2) binding R: every bounded single-operation behaviour, replayed on the real client
    gen = ctx.pick("AcmeNonce_Gen1q.cfg", "AcmeNonce_Gen1t.cfg")
    g = ctx.tlc_must_hold("AcmeNonce_Gen", cfg=gen, workers=1, timeout=1500, count=not ctx.thorough)
    if not g.traces:
        raise vlib.Infra("generator produced no behaviours")
    ctx.log("generator: %d behaviours" % len(g.traces))
    tp = ctx.tmp("c50_replay_traces.ndjson")
    res = ctx.go_test("c50", "TestReplay", cases=g.traces, timeout=1500,
                      env={"VERIF_TRACES": tp, "C50_ALL_OPS": "1" if ctx.thorough else "0"})
    replay_res = res
    ctx.absorb(res, validated=False)
    if ctx.violations:
        return      # the real client already contradicted the model in the replay: verdict is settled
    if ctx.thorough:
        nval = _validate(ctx, _load_traces(tp), "replay logs", 60000)
        if ctx.violations:
            return
    # ---- (3) binding T: concurrent and long sessions
    tp2 = ctx.tmp("c50_conc_traces.ndjson")
    res = ctx.go_test("c50", "TestConcurrent", timeout=1500, race=True,
                      env={"VERIF_TRACES": tp2, "C50_ROUNDS": ctx.pick(120, 600)})
    ctx.absorb(res, validated=False)
    tp3 = ctx.tmp("c50_long_traces.ndjson")
    res3 = ctx.go_test("c50", "TestLong", timeout=1500, env={"VERIF_TRACES": tp3, "C50_SESSIONS": ctx.pick(12, 150)})
    ctx.absorb(res3, validated=False)
    if ctx.violations:
        return
    if ctx.thorough:
        nval += _validate(ctx, _load_traces(tp2), "concurrent sessions", 60000)
        nval += _validate(ctx, _load_traces(tp3), "long sessions", 50000)
    else:
        # quick: one TLC start for all three kinds of recorded traces
        chosen = _sample(ctx, _load_traces(tp), 4000) + _sample(ctx, _load_traces(tp2), 4000) + _sample(ctx, _load_traces(tp3), 2500)
        ok = ctx.validate_traces("AcmeNonce_Trace", chosen, sig_prefix="c50-trace-rejected", timeout=1500, max_rejects=3)
        ctx.log("replay + concurrent + long logs: %d recorded traces (%d events) validated by AcmeNonce_Trace, %d accepted"
                % (len(chosen), sum(len(t) for t in chosen), ok))
        nval = len(chosen)
    if ctx.violations:
        return

    # ---- (4) default back-off in virtual time
    res = ctx.go_test("c50", "TestDefaultBackoff", timeout=600)
    ctx.absorb(res, validated=False)
    # ---- (5) back-off VALUE classes: zero and NEGATIVE end the retries (signed POST: in the replay above;
    #          unsigned GET: TestGetBackoff); default back-off with every Retry-After class
    rg = ctx.go_test("c50", "TestGetBackoff", timeout=600)
    ctx.absorb(rg, validated=False)
    ctx.absorb(ctx.go_test("c50", "TestDefaultRetryAfter", timeout=600), validated=False)
    neg_post = (replay_res.get("extra") or {}).get("c50_negative_backoff_post_cases", 0)
    neg_get = (rg.get("extra") or {}).get("c50_negative_backoff_get_cases", 0)
    ctx.extra["negative_backoff_cases"] = {"post": neg_post, "get": neg_get}
    if not ctx.violations and (not neg_post or not neg_get):
        raise vlib.Infra("vacuous: no negative-backoff case ran (post=%s get=%s)" % (neg_post, neg_get))
    ctx.extra["recorded_traces_validated"] = nval
    ctx.exhaustive = False
    ctx.notes.append("model checking is exhaustive within the stated bounds; replay covers every single-operation behaviour within the "
                     "generator bound; concurrent interleavings of the real client are sampled (seeded) and judged by trace validation")
