"""C04 - Poly1305 tags equal the mathematical definition.

Specs: spec/PrimPoly.tla (the definition itself, executable: limb naturals, mod 2^130-5, clamp,
Horner and literal sum-of-powers forms; anchored by ASSUMEs of RFC 8439 2.5.2 and appendix A.3),
spec/PrimPoly_MC.tla (the limb arithmetic model-checked against native integers on scaled
instances), spec/PolyMac.tla (abstract incremental MAC), spec/PolyBuf.tla (transcription of the
Write/Sum buffering; refinement PolyBuf => PolyMac), spec/PolyMac_Gen.tla (chunking histories), spec/PolyMac_Tags.tla (
TLC-evaluated tag tables incl. accumulator-boundary cases).

The Go harness compares the real poly1305 Sum / Verify / New-Write-Sum-Verify byte-for-byte with the
TLC-evaluated tags for every enumerated chunking, on the assembly path (tags verif) and on the
portable path (tags verif,purego)."""
import concurrent.futures, json
import vlib


def run(ctx):
    ctx.level = "model_checking"
    ctx.rule = ("cases = (key, message, Write chunking, code path): keys/messages = patterned (kseed, mseed, every length 0..TagMax) and "
                "accumulator-boundary cases (r=1 with block sums p-8..p+12, r and s at their maxima) with tags evaluated by TLC from PrimPoly; "
                "chunkings = all sequences of <=4 Write sizes from the model's WSet (incl. empty writes) with total <= MaxLen, enumerated by TLC "
                "from PolyMac, plus every 2-split of each boundary case; random amplifier cases judged by a Go transcription validated against "
                "the TLC tags in the same run; distinct = distinct (path, key, message, chunking)")
    ctx.assumptions = [
        "definition = spec/PrimPoly.tla evaluated by TLC (limb arithmetic model-checked against native integers on scaled instances W*NL=10; "
        "real instance W=13 anchored by RFC 8439 2.5.2 / A.3 vectors)",
        "Verify 'accepts exactly that tag' is sampled: the tag, all 128 single-bit flips, one truncation and one extension",
        "keys/messages are sampled (patterned, boundary-structured, seeded random), not enumerated; messages up to 4096 bytes",
        "amd64: assembly update vs updateGeneric selected with build tag purego; other architectures' assembly is not executed",
    ]
    T = "T" if ctx.thorough else "Q"
    jobs = {
        "mc_buf": dict(module="PolyBuf", cfg="PolyBuf_MC.cfg", workers=2, coverage=ctx.thorough, note="refinement PolyBuf => PolyMac, buffer invariant"),
        "mc_limb": dict(module="PrimPoly_MC", cfg="PrimPoly_MC_%s.cfg" % T, workers=ctx.pick(4, 8),
                        note="limb arithmetic = native arithmetic on scaled shapes (10x1, 5x2, 2x5 bits; modulus 1019); RFC 8439 A.3 ASSUMEs"),
        "hist": dict(module="PolyMac_Gen", cfg="PolyMac_GenHist%s.cfg" % ("T" if ctx.thorough else ""), workers=1),
        "tags": dict(module="PolyMac_Tags", cfg="PolyMac_Tags_%s.cfg" % T, workers=ctx.pick(6, 10)),
    }
    if ctx.replay:
        jobs = {k: v for k, v in jobs.items() if k in ("tags",)}
    res = {}
    with concurrent.futures.ThreadPoolExecutor(max_workers=len(jobs)) as ex:
        futs = {k: ex.submit(ctx.tlc, timeout=2400, count=False, **kw) for k, kw in jobs.items()}
        for k, f in futs.items():
            res[k] = f.result()
    for k, r in res.items():
        if not r.ok:      # a counterexample in the design model alone is never a verdict
            raise vlib.Infra("design model %s: %s violated:\n%s" % (k, r.violated, (r.cex or r.raw[-3000:])[:6000]))
        if k.startswith("mc_") or k == "tags":
            ctx.states += r.distinct
            ctx.transitions += r.generated
        if r.coverage_zero:
            ctx.notes.append("actions never taken in %s: %s" % (k, r.coverage_zero))
        ctx.log("%s: %d distinct states, %d TRACE lines, %.0fs" % (k, r.distinct, len(r.traces), r.wall))
    tags = res["tags"].traces
    if len(tags) < 50:
        raise vlib.Infra("tag generator produced too little")
    tp = ctx.tmp("tags.ndjson")
    open(tp, "w").write("".join(json.dumps(x) + "\n" for x in tags))
    if ctx.replay:
        d = json.load(open(ctx.replay))["violation"]["detail"]
        hist = [{"w": d["writes"]}] if d.get("writes") else []
        for path, tg in (("asm", "verif"), ("purego", "verif,purego")):
            ctx.absorb(ctx.go_test("c04", "TestReplay", cases=hist, tags=tg, timeout=900,
                                   env={"VERIF_C04_TAGS": tp, "VERIF_C04_PATH": path, "VERIF_C04_RANDOM": ctx.pick(3000, 60000)}))
        return
    hist = res["hist"].traces
    if not hist:
        raise vlib.Infra("history generator produced nothing")
    for path, tg in (("asm", "verif"), ("purego", "verif,purego")):
        r = ctx.go_test("c04", "TestReplay", cases=hist, tags=tg, timeout=1500,
                        env={"VERIF_C04_TAGS": tp, "VERIF_C04_PATH": path, "VERIF_C04_RANDOM": ctx.pick(3000, 60000)})
        ctx.log("replay %s: %d evaluations, %d violations" % (path, r.get("evaluations", 0), len(r.get("violations") or [])))
        ctx.absorb(r)
    ctx.exhaustive = True
    ctx.notes.append("exhaustive over the model's chunking alphabet and bounds; key/message space sampled")
