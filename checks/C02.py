"""C02 - AEAD Open rejects every input it did not produce.

Spec: spec/AEAD_Tamper.tla (over spec/AEAD.tla): a sealed base case and the action Tamper(kind, i, b)
(bit flips at every position of the sealed output / AD / nonce / key, whole-byte changes, AD
extension/truncation, truncation and extension of the sealed output by 1..32 bytes incl. inputs shorter
than the tag).  TLC evaluates the executable AEAD!Open on every tampered input of the small EvalBases
(invariant Rejects: the model-level statement) and prints every base case with its full tamper set.
The Go harness seals each base case with the real code, applies every tamper and expects the real Open
to fail, return nothing, and leave no decrypted bytes in dst; ChaCha20-Poly1305 and XChaCha20-Poly1305 on
the assembly and portable paths, NaCl secretbox.Open / box.Open / box.OpenAfterPrecomputation."""
import json
import vlib


def run(ctx):
    ctx.level = "model_checking"
    ctx.rule = ("cases = (variant std/x/secretbox/box, base message lengths, tamper <<kind, position, bit>>, code path); tamper sets enumerated by TLC "
                "from AEAD_Tamper: every bit of every byte of the sealed output, AD, nonce and key; byte xor ff at every position; AD +1/-1 byte; "
                "truncation 1..32 and extension 1..32; correlated tag changes (same mask on byte k and k+8, on the same byte of 2..4 words, on both halves, all bytes; "
                "half swap, rotation); base plaintext lengths up to 80 (quick) / 600 (thorough); "
                "distinct = distinct (path, variant, lengths, tamper[, NaCl entry point])")
    ctx.assumptions = [
        "rejection is the model's prediction for every tampered input; in the model it is decided by evaluating AEAD!Open (TLC) on the EvalBases; "
        "an accepted forgery on the real code is reported with its input (a genuine Poly1305 collision has probability ~2^-100 per case)",
        "NaCl: XSalsa20 has no executable model here (C09/C10); secretbox/box are replayed by tamper class only (tag first, no AD)",
        "box: flips of the bits X25519 ignores by specification (public-key bit 255; private-key bits 0,1,2,254,255) do not change the key and are excluded",
        "dst inspection: after a failed ChaCha20-Poly1305 Open no byte of the would-be returned region equals the decryption of the presented ciphertext "
        "(positions where that byte is 0 or the sentinel are not decidable and skipped)",
        "amd64: AVX2 assembly vs portable path by build tag purego; other architectures not executed",
    ]
    T = "T" if ctx.thorough else "Q"
    cases = []
    for cfg in (["AEAD_Tamper_T.cfg", "AEAD_Tamper_T2.cfg"] if ctx.thorough else ["AEAD_Tamper_Q.cfg"]):
        r = ctx.tlc("AEAD_Tamper", cfg=cfg, workers=ctx.pick(8, 14), timeout=3000, coverage=False,
                    note="model-level: AEAD!Open rejects every tampered input of the EvalBases; emits base cases + tamper sets")
        if not r.ok:      # a counterexample in the design model alone is never a verdict
            raise vlib.Infra("design model AEAD_Tamper: %s violated (model-level, not a verdict):\n%s" % (r.violated, (r.cex or r.raw[-3000:])[:6000]))
        ctx.log("%s: %d distinct states (about %d tampered inputs evaluated in the model), %d base cases, %.0fs"
                % (cfg, r.distinct, max(0, r.distinct - len(r.traces) - 30), len(r.traces), r.wall))
        cases += r.traces
    if len(cases) < 20:
        raise vlib.Infra("AEAD_Tamper produced too few base cases")
    if ctx.replay:
        d = json.load(open(ctx.replay))["violation"]["detail"]
        keep = [c for c in cases if c["v"] == d.get("v") and c["ptLen"] == d.get("ptLen") and c.get("adLen", 0) == d.get("adLen", c.get("adLen", 0))]
        for c in keep:
            c["tampers"] = [t for t in c["tampers"] if list(t) == list(d.get("tamper", t))]
        cases = keep or cases
    for path, tg in (("asm", "verif"), ("purego", "verif,purego")):
        res = ctx.go_test("c02", "TestTamper", cases=cases, tags=tg, timeout=2400, env={"VERIF_C02_PATH": path})
        ctx.log("replay %s: %d evaluations, %d violations" % (path, res.get("evaluations", 0), len(res.get("violations") or [])))
        ctx.absorb(res)
    ctx.exhaustive = True
    ctx.notes.append("exhaustive over single-bit positions and the listed length changes for the enumerated base cases; keys/contents patterned")
