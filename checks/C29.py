"""C29 -- key exchanges agree, bind the transcript and reject invalid peer values.

Spec: spec/SSHKex.tla (+ SSHKex_MC, SSHKex_MCQ / MCGex / MCAll).  TLC checks, for every attacker plan (altered
GEX request / group, e, f, K_S, signature; per method dh, gex, ecdh, c25519, mlkem), Agreement (client accepts
=> same hashed fields and K on both sides), AcceptIffSigned, InvalidRejected, Binding, HonestCompletes, and for
every (min, preferred, max) over the boundary values that the transcription of chooseDH / the GEX request
check equals the declarative choose_dh rule (ChooseAgree, GexChoice); it evaluates Preimage(method, fields)
on synthetic values.  Binding R: harness/c29 runs the real client and server halves (hook ssh/verif_kex.go)
over a pipe with a man in the middle for every plan, every method x host key type untampered with H
recomputed from the recorded transcript by walking the field list emitted by TLC, and the request table
through chooseDH and the real GEX server half (the harness being an independent GEX client)."""
import concurrent.futures as cf
import json
import vlib


def _tlc(ctx, module, cfg, workers=8):
    r = ctx.tlc(module, cfg="SSHKex_%s.cfg" % cfg, workers=workers, timeout=1500, count=False)
    if not r.ok:
        raise vlib.Infra("design model SSHKex/%s: %s violated (model-level counterexample, not reproduced on code):\n%s"
                         % (cfg, r.violated or "postcondition", (r.cex or r.raw[-3000:])[:6000]))
    return r


def run(ctx):
    ctx.level = "model_checking"
    ctx.rule = ("cases = (a) attacker plans of SSHKex (per method: each altered slot alone and every pair of altered slots, values from the "
                "boundary sets 0,1,2,p-2,p-1,p,p+1,-1 / off-curve, infinity, oversized coordinates, compressed form / 31,33-byte, zero, six "
                "low-order X25519 points / truncated, extended, non-canonical ML-KEM keys and ciphertexts, flipped ciphertext / flipped "
                "signature, foreign or corrupt host key / altered GEX request and group) replayed on the real halves of each real algorithm "
                "of the method; (b) every real kex x host key type (ed25519, ecdsa-256/384/521, rsa-sha2-256/512, ssh-rsa, two certificate "
                "types) untampered; (c) every (min,n,max) over 16 boundary values (4096 triples) plus seeded random uint32 triples through "
                "chooseDH and the real GEX server half; (d) forced shapes of the shared secret (ordinary, top bit set, leading zero octet, zero "
                "octet then top bit, two leading zero octets) for every real algorithm against the client half and against the server half, the "
                "harness being an independent peer that searches its own ephemeral secret. distinct = distinct (algorithm, plan, variant) / (algorithm, host key) / triple")
    ctx.assumptions = [
        "hash functions are injective on the hashed fields and signatures unforgeable (symbolic [by, over] signatures in the model)",
        "Go standard library primitives (crypto/ecdh, crypto/mlkem, crypto/elliptic, math/big, SHA-1/2, signature verification) trusted",
        "a DH value computed in another GEX group is out of range for a smaller group with overwhelming probability (Transfer)",
    ]
    if ctx.replay:
        rp = json.load(open(ctx.replay))
        ctx.notes.append("replay of %s: the whole quick check is re-run (exchanges use fresh random values)" % (rp.get("violation") or {}).get("sig"))
    jobs = [("SSHKex_MCQ", "Q2"), ("SSHKex_MCGex", "Gex")]
    if ctx.thorough:
        jobs.append(("SSHKex_MCAll", "All"))
    with cf.ThreadPoolExecutor(max_workers=3) as ex:
        futs = {cfg: ex.submit(_tlc, ctx, mod, cfg) for mod, cfg in jobs}
        res = {}
        errs = []
        for mod, cfg in jobs:
            try:
                res[cfg] = futs[cfg].result()
            except vlib.Infra as e:
                errs.append(str(e))
        if errs:
            raise vlib.Infra("; ".join(errs)[:6000])
    for mod, cfg in jobs:
        r = res[cfg]
        ctx.states += r.distinct
        ctx.transitions += r.generated
        ctx.log("TLC %-4s %8d generated %8d distinct %6.1fs" % (cfg, r.generated, r.distinct, r.wall))
    pre = [t for t in res["Q2"].traces if "pre" in t] + [t for t in res["Q2"].traces if "kshape" in t]
    plans = [t for t in res["Q2"].traces if "plan" in t]
    gex = [dict(t, gexprobe=True) for t in res["Gex"].traces if "plan" in t]
    if len(pre) < 150 or len(plans) != 869 or len(gex) != 4096:
        raise vlib.Infra("generator output incomplete: %d preimage records, %d plans, %d requests" % (len(pre), len(plans), len(gex)))
    out = ctx.go_test("c29", "TestKex", cases=pre + plans + gex, timeout=1800)
    ctx.absorb(out)
    ex = out.get("extra") or {}
    ctx.log("harness: %s" % json.dumps(ex, sort_keys=True))
    if ex.get("plan_not_constructible"):
        ctx.notes.append("%d (plan, algorithm) pairs skipped: the value class has no encoding on that curve (a coordinate >= p does not fit "
                         "the fixed-length point encoding of P-256/P-384 unless the reduced coordinate is tiny)" % ex["plan_not_constructible"])
    ctx.exhaustive = True
