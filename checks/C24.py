"""C24 — SSH wire encoding round-trips and parsing is total.

Spec: spec/SSHWire.tla over spec/PrimSSHEnc.tla and spec/PrimTwos.tla (executable RFC 4251 encoders and
decoders on byte sequences; mpint as minimal two's complement on byte strings of any size).  The
signature table of every message struct of ssh/messages.go is part of the spec.  TLC (a) anchors the
byte-string arithmetic against integer arithmetic on [-33000, 33000]; (b) for every message struct and
ad hoc structs, every boundary value per field kind: checks Unmarshal(Marshal(m)) = m, mpint minimality,
rejection of wrong types / trailing bytes / truncations / oversized length fields on the model, and emits
the expected bytes plus the predicted outcome of every mutant.  The harness cross-checks the table
against the Go structs by reflection, then compares Marshal byte-for-byte, round-trips, and feeds every
mutant to the real Unmarshal and decode (accept/reject, values, no panic).  Seeded random byte strings
are an exploration layer only."""
import json
import vlib

KINDS = ["byte", "bool", "u32", "u64", "string", "bytes", "namelist", "mpint", "arr1", "arr4", "arr8", "arr16", "rest"]


def run(ctx):
    ctx.level = "model_checking"
    ctx.rule = ("cases = (message struct, field values) enumerated by TLC from SSHWire_MC: for each of the 38 message structs of "
                "messages.go that have fields, 4 ad hoc structs and 50 position-complete shapes (every field kind as only/first/middle/last "
                "field, built with reflect.StructOf), the base assignment plus each field taking every boundary value "
                "of its kind (uint32/uint64 limbs, strings of length 0..257 (65536 thorough), name-lists, mpints +-(2^k-1, 2^k, 2^k+1) "
                "for k up to 64 (2048 thorough), rest, arrays); each case carries its mutants (truncations, 1-4 trailing bytes, wrong "
                "type bytes, every length field set to 0/len-1/len+1/2^31/2^32-1); distinct = distinct (message, values)")
    ctx.assumptions = ["name-lists contain non-empty names without commas (RFC 4251); [\"\"] is not representable on the wire and is excluded",
                       "nil *big.Int is not an mpint value (Marshal dereferences it) and is excluded",
                       "slice nil-ness is not part of the value: nil and empty []byte / []string are identified",
                       "userAuthSuccessMsg (no fields, no type tag) has no wire format of its own: only panic-freedom is probed",
                       "totality over all byte strings is not decidable by this technique: random strings are exploration only"]
    if ctx.replay:
        d = json.load(open(ctx.replay))["violation"]["detail"]
        r = ctx.tlc_must_hold("SSHWire_MC", cfg="SSHWire_Gen.cfg", workers=8, timeout=900)
        table = [t for t in r.traces if "table" in t]
        cases = [d["case"]] if isinstance(d, dict) and "case" in d else [t for t in r.traces if "table" not in t]
        ctx.absorb(ctx.go_test("c24", "TestReplay", cases=table + cases, timeout=600))
        return
    ctx.tlc_must_hold("PrimTwos_MC", cfg="PrimTwos_MC.cfg", workers=4, timeout=900)
    # model checking and case generation in one run (each TRACE line is self-contained, so several workers are fine)
    r = ctx.tlc_must_hold("SSHWire_MC", cfg=ctx.pick("SSHWire_Gen.cfg", "SSHWire_GenBig.cfg"), workers=8, timeout=2400,
                          coverage=False)
    table = [t for t in r.traces if "table" in t]
    cases = [t for t in r.traces if "table" not in t]
    if len(table) != 1 or not cases:
        raise vlib.Infra("SSHWire generator: expected one table line and some cases, got %d / %d" % (len(table), len(cases)))
    ctx.log("SSHWire: %d cases, %d mutants" % (len(cases), sum(len(c["muts"]) for c in cases)))
    res = ctx.go_test("c24", "TestReplay", cases=table + cases, timeout=1200)
    cover = (res.get("extra") or {}).pop("c24_kind_position_cover", None) or {}
    ctx.absorb(res)
    # vacuity guard: every field kind must have been exercised as FIRST, MIDDLE and LAST field of some struct (rest: only
    # as a final member, as documented), and in last position with exactly enough / one byte short / one byte extra input
    missing = []
    for k in KINDS:
        for pos in (["first", "last"] if k == "rest" else ["first", "middle", "last"]):
            if not cover.get("%s|%s" % (k, pos)):
                missing.append("%s|%s" % (k, pos))
        for b in ["exact", "short", "extra"]:
            if not cover.get("%s|last|%s" % (k, b)):
                missing.append("%s|last|%s" % (k, b))
    if missing:
        raise vlib.Infra("C24 vacuity guard: (field kind, position) pairs never exercised: %s" % missing)
    ctx.extra["c24_kind_position_pairs_exercised"] = len([k for k in cover if k.count("|") == 1])
    ctx.extra["c24_last_field_boundary_inputs"] = sum(v for k, v in cover.items() if k.count("|") == 2)
    n = ctx.pick(200000, 5000000)
    smoke = ctx.go_test("c24", "TestSmoke", timeout=1500, env={"VERIF_C24_SMOKE": n})
    # exploration layer: its inputs are not counted as model-derived cases
    for v in (smoke.get("violations") or []):
        ctx.violations.append(v)
    ctx.extra["exploration_random_inputs"] = smoke.get("extra", {}).get("c24_smoke_inputs", 0)
    ctx.extra["exploration_random_inputs_accepted"] = smoke.get("extra", {}).get("c24_smoke_accepted", 0)
    ctx.notes.append("random/mutated byte strings (exploration_random_inputs) are a smoke layer for panic-freedom, not a proof of totality")
    ctx.exhaustive = True
