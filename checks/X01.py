"""X01 (growth) -- the SSH client session layer behaves as documented for every server behaviour.

Spec: spec/SSHSession.tla -- a client ssh.Session as a big-step state machine over the channel/mux
layer of SSHChannel.tla / SSHMux.tla: one action per public call (Start, Shell, Run, Output,
CombinedOutput, Wait, Setenv/RequestPty/RequestSubsystem/SendRequest, Signal/WindowChange,
StdinPipe/StdoutPipe/StderrPipe and writes/close on the stdin pipe, Close), per event of the
application's Stdin reader, and per thing the server can do on its end of the session channel
(reply success/failure, stdout/stderr data, EOF, exit-status, exit-signal with/without core flag,
truncated exit-status / exit-signal, want-reply keepalive, close, connection loss) in every order
the server-side channel API permits.  TLC checks S1..S8 (exit result, no data loss at exit, start
once, stdin EOF, start failure, reply values, nothing blocked after close) exhaustively within the
bounds, then emits one witness history per model transition out of every distinct abstract state
(plus seeded random long histories) with the predicted observables per step.
Binding R: harness/x01 replays every history on a REAL ssh.Session (ssh.NewClient over the real
mux hook) against a real server-side mux/channel inside testing/synctest bubbles and compares per
step: control packets written, calls returned with result class / exit status / signal / message,
bytes delivered to Stdout/Stderr/pipes/Output, stdin bytes the server read, keepalive answers.
Binding T: a seeded random long-session driver (outputs up to 1 MiB per write, interleaved stderr,
model-independent) records executions that SSHSession_Trace.tla validates event by event."""
import json, os, random, threading
import vlib



def _par(ctx, jobs):
    """Run independent TLC jobs in threads (JVM start-up under load dominates); re-raise the first failure."""
    res, errs = {}, []

    def work(name, fn):
        try:
            res[name] = fn()
        except Exception as e:      # noqa
            errs.append(e)
    ths = [threading.Thread(target=work, args=j) for j in jobs]
    for t in ths:
        t.start()
    for t in ths:
        t.join()
    if errs:
        raise errs[0]
    return res


def run(ctx):
    ctx.level = "model_checking"
    ctx.rule = ("cases = histories emitted by TLC from SSHSession (one per model transition out of every distinct abstract session "
                "state within the bounds, 4 session configurations (Stdin nil/reader x Stdout,Stderr nil/buffers), three alphabets: "
                "full, lite, server-centric; plus seeded simulated long histories), each replayed on a real ssh.Session against a real "
                "server-side channel and compared per step; distinct = distinct history.  Long random sessions recorded from the real "
                "code are validated as traces of the same specification.")
    ctx.assumptions = [
        "channel/mux layer below the session is the real one on both sides (hook ssh/verif_mux.go: newMux over harness/c35conn, an in-memory "
        "FIFO packetConn); transport, kex and authentication are not involved",
        "each event runs to quiescence (testing/synctest: every goroutine durably blocked) before the next one: races between two "
        "events inside one step are not explored (the long-session driver runs server writes of up to 1 MiB concurrently with the "
        "client's copy goroutines inside one step)",
        "the application calls Wait at most once, reads each pipe from one goroutine, and never has two want-reply requests in flight",
        "the server is any program using the ssh.Channel API: no data after its own EOF, nothing after its own close; raw protocol "
        "violations are the subject of C36",
        "error values other than *ExitError / *ExitMissingError are compared as one class (non-nil error)",
    ]
    if ctx.replay:
        rp = json.load(open(ctx.replay))
        det = (rp.get("violation") or {}).get("detail") or {}
        if isinstance(det, dict) and det.get("trace"):
            ctx.validate_traces("SSHSession_Trace", [det["trace"]], timeout=900)
            return
        case = det.get("case") if isinstance(det, dict) else None
        if not case:
            raise vlib.Infra("replay file has no history")
        ctx.absorb(ctx.go_test("x01", "TestReplay$", cases=[case], timeout=600))
        return

    q = not ctx.thorough
    mcs = ["Q", "QSrv"] if q else ["T0", "T32", "TSrv", "TLite"]
    gens = [("GenQ", None, None)] if q else \
           [("GenQ", None, None), ("GenT", None, None), ("GenSrv5", None, None)]
    gens.append(("SimSrv", ctx.pick(400, 3000), 14))
    if not q:
        gens.append(("Sim", 2000, 14))

    def mc(name):
        return lambda: ctx.tlc_must_hold("SSHSession_MC", cfg="SSHSession_%s.cfg" % name, timeout=2400,
                                         workers=ctx.pick(4, 12), coverage=(name == "T0"))

    def gen(name, sim, depth):
        cfg_text = None
        if q and name == "GenQ":
            # quick: two of the four session configurations (one with Stdin nil, one with a reader), chosen by the seed
            cfg_text = open(os.path.join(vlib.VERIF, "spec", "SSHSession_GenQ.cfg")).read().replace(
                "AllCfgs", "CfgsA" if ctx.seed % 2 else "CfgsB")
        return lambda: ctx.tlc_must_hold("SSHSession_MC", cfg="SSHSession_%s.cfg" % name, workers=1, timeout=2400, count=False,
                                         simulate=sim, depth=depth, cfg_text=cfg_text)

    tp = ctx.tmp("x01_traces.ndjson")

    def long_sessions():
        # binding T, step 1: long random sessions recorded from the real code (model-independent driver)
        return ctx.go_test("x01", "TestLong$", env={"VERIF_TRACE_OUT": tp, "VERIF_X01_LONG": ctx.pick(25, 300)}, timeout=1500)

    # phase A: everything that does not depend on anything else, in parallel (JVM start-up dominates under load)
    jobs = [("long", long_sessions)] + [("gen:" + g[0], gen(*g)) for g in gens]
    if q:
        jobs += [("mc:" + m, mc(m)) for m in mcs]
    res = {}

    def big_mcs():                  # thorough: the big model-checking runs one after the other, next to the replay
        for m in mcs:
            res["mc:" + m] = mc(m)()
        # the code as it is with a small request buffer: documents the design-level counterexample to S9; never a verdict
        r = ctx.tlc("SSHSession_MC", cfg="SSHSession_Stall.cfg", timeout=900, expect_violation=True, count=False)
        ctx.notes.append("SSHSession_Stall.cfg (ReqBuf=2): TLC reports %s" % (("violation of " + str(r.violated)) if r.violated else "no violation"))

    mc_thread, mc_err = None, []
    if not q:
        def _mc_chain():
            try:
                big_mcs()
            except Exception as e:      # noqa
                mc_err.append(e)
        mc_thread = threading.Thread(target=_mc_chain)
        mc_thread.start()
    try:
        res.update(_par(ctx, jobs))
    except Exception:
        if mc_thread:
            mc_thread.join()
        raise

    def log_mcs():
        for m in mcs:
            r = res["mc:" + m]
            ctx.log("TLC %s: %d generated, %d distinct, %.0fs" % (m, r.generated, r.distinct, r.wall))
            if r.coverage_zero:
                ctx.notes.append("actions never taken in %s: %s" % (m, r.coverage_zero))

    cases = []
    for g in gens:
        r = res["gen:" + g[0]]
        if not r.traces:
            raise vlib.Infra("generator %s produced no histories" % g[0])
        ctx.log("%s: %d histories (%.0fs)" % (g[0], len(r.traces), r.wall))
        tr = r.traces
        if q and len(tr) > 12000:      # quick: seeded sample of the per-transition witnesses
            random.Random(ctx.seed * 7919 + len(tr)).shuffle(tr)
            tr = tr[:12000]
        cases.extend(tr)
    ctx.extra["histories_replayed"] = len(cases)

    res_l = res["long"]
    lg = dict(res_l)
    lg["evaluations"] = 0
    lg["distinct"] = 0
    ctx.absorb(lg, validated=False)
    traces = []
    if os.path.exists(tp):
        with open(tp) as fh:
            for line in fh:
                traces.append(json.loads(line))
    if not traces and not res_l.get("violations"):
        raise vlib.Infra("x01 long-session driver recorded no traces")
    ctx.log("recorded %d long sessions, %d events, %s output bytes" % (len(traces), sum(len(t) for t in traces),
                                                                     (res_l.get("extra") or {}).get("long_output_bytes")))

    # phase B: replay (binding R) and trace validation (binding T, step 2) side by side
    def replay():
        r = ctx.go_test("x01", "TestReplay$", cases=cases, timeout=2400, env={"VERIF_X01_PAR": ctx.pick(4, 6)})
        # directed scenario beyond the bounds (S9 with the real request-buffer size): same test binary, so no second build
        st = ctx.go_test("x01", "TestStall$", timeout=600)
        return r, st

    def validate():
        for i in range(0, len(traces), 100):
            ctx.validate_traces("SSHSession_Trace", traces[i:i + 100], timeout=900, max_rejects=3)

    try:
        res2 = _par(ctx, [("replay", replay), ("validate", validate)])
    finally:
        if mc_thread:
            mc_thread.join()
    if mc_err:
        raise mc_err[0]
    log_mcs()
    ctx.absorb(res2["replay"][0])
    ctx.absorb(res2["replay"][1])
    ctx.extra["recorded_long_sessions"] = len(traces)
    ctx.exhaustive = False
