"""C51 — autocert serves only approved, valid certificates and renews safely.

Specs: spec/Autocert.tla (GetCertificate: name checks, token path, HostPolicy, m.cert / cacheGet /
validCert, certState ownership, createCert, delayed clean-up, cachePut) and spec/AutocertRenew.tla
(domainRenewal.next as documented).

 (a) decision table: TLC checks S1-S3 on the one-call instance over name class x policy x cache
     class x clock position x key type x token hello x issuance outcome and emits every case with
     the predicted result; harness/c51 TestDecision replays each through the public GetCertificate
     of a real Manager (recording HostPolicy, recording Cache with harness-made certificates,
     in-process fake ACME CA, clock through the package's nowFunc seam) and additionally judges
     every served certificate by the property alone (approved name, valid now, key, key type).
 (b) ownership: TLC checks E1-E3 for 3 concurrent calls; TestConcurrent runs N = 2..16 real
     goroutines (-race) per round, counts newOrder/finalize at the CA, and the event logs are
     validated by Autocert_Trace.  TestCleanup: no re-issuance before the delayed clean-up.
 (c) renewal: TLC checks R1-R4 on the nanosecond grid (lifetime 0..100 ns x RenewBefore 0..40 ns)
     and on an hours..years grid, emits the admissible interval per case; TestRenewNext calls the
     real next() (hook VerifRenewalNext) under recover; seeded random durations through a Go
     transcription anchored on the TLC grid; TestRenewPublic reaches the same code through
     GetCertificate with a tiny RenewBefore.
"""
import json, os
import vlib


def _load(path):
    tr = []
    if os.path.exists(path):
        with open(path) as fh:
            for line in fh:
                if line.strip():
                    tr.append(json.loads(line))
    return tr


def run(ctx):
    ctx.level = "model_checking"
    ctx.rule = ("decision cases = complete one-call behaviours of Autocert enumerated by TLC (11 name classes x policy x 10 cache classes (wrong key split into unrelated key / negated scalar sharing X) "
                "x 5 clock positions for valid entries x key type x token hello x 3 issuance outcomes), distinct = distinct tuple; RSA "
                "issuance cases are a seeded sample (2048-bit key generation inside the Manager); concurrency = seeded rounds of 2..16 "
                "goroutines, one recorded trace per round; renewal cases = (lifetime, RenewBefore, now) grid points enumerated by TLC in "
                "two units plus seeded random durations")
    ctx.assumptions = [
        "certificates in the cache and from the CA are made by the harness with crypto/x509; chain verification is not part of validCert nor of the property",
        "the Manager's clock is set through the package's own nowFunc seam (hook VerifSetNow); the fake CA uses the same clock",
        "callbacks (HostPolicy, Cache, CA requests) are attributed to GetCertificate calls by goroutine id: they run synchronously in the caller's goroutine",
        "orders are 'ready' at once: the challenge machinery (tls-alpn-01/http-01 fulfilment) is outside C51",
        "within a concurrent round no clean-up timer fires (rounds last milliseconds, the timer is one minute)",
    ]
    skip_mc = bool(os.environ.get("VERIF_SKIP_MC"))
    if skip_mc:
        ctx.skipped.append("VERIF_SKIP_MC set: exhaustive model checking skipped")
    if ctx.replay:
        d = (json.load(open(ctx.replay)).get("violation") or {}).get("detail") or {}
        if isinstance(d, dict) and d.get("case") and "policy" in d["case"]:
            ctx.absorb(ctx.go_test("c51", "TestDecision$", cases=[d["case"]], env={"C51_RSA_ISSUES": 1000}, timeout=300))
            return
        if isinstance(d, dict) and d.get("case") and "life" in d["case"]:
            ctx.absorb(ctx.go_test("c51", "TestRenewNext$", cases=[d["case"]], env={"C51_UNIT": "s" if d.get("unit") == "1s" else "ns", "C51_RANDOM_NEXT": 0}, timeout=300))
            return

    # ---- model checking (the one-call instance and the renewal grids are checked in the generator runs below)
    if not skip_mc:
        for cfg in ["Autocert_ConcQ.cfg"] + (["Autocert_Conc.cfg"] if ctx.thorough else []):
            r = ctx.tlc_must_hold("Autocert_MC", cfg=cfg, timeout=1500)
            ctx.log("%s: %d distinct states" % (cfg, r.distinct))

    # ---- (a) decision table
    g = ctx.tlc_must_hold("Autocert_MC", cfg="Autocert_GenTable.cfg", workers=1, timeout=900)   # S1-S3, E1-E3 + Emit
    if not g.traces:
        raise vlib.Infra("decision-table generator produced no cases")
    ctx.log("decision table: %d cases" % len(g.traces))
    dres = ctx.go_test("c51", "TestDecision$", cases=g.traces, timeout=1500, env={"C51_RSA_ISSUES": ctx.pick(6, 80)})
    ctx.absorb(dres)
    if not ctx.violations and not (dres.get("extra") or {}).get("c51_negated_scalar_cache_cases"):
        raise vlib.Infra("vacuous: the cache class 'private key = negated scalar of the leaf key' did not run")

    # ---- (b) ownership under real concurrency
    tp = ctx.tmp("c51_conc.ndjson")
    res = ctx.go_test("c51", "TestConcurrent$", timeout=1500, race=True,
                      env={"VERIF_TRACES": tp, "C51_ROUNDS": ctx.pick(40, 400), "C51_RSA_ROUNDS": ctx.pick(2, 24)})
    ctx.absorb(res, validated=False)
    traces = _load(tp)
    if traces:
        ok = ctx.validate_traces("Autocert_Trace", traces, sig_prefix="c51-trace-rejected", timeout=1500, max_rejects=3)
        ctx.log("concurrency: %d recorded rounds validated by Autocert_Trace, %d accepted" % (len(traces), ok))
    ctx.absorb(ctx.go_test("c51", "TestCleanup$", timeout=300), validated=False)

    # ---- (c) renewal delay
    for cfg, unit in ((ctx.pick("AutocertRenew_GenNsQ.cfg", "AutocertRenew_GenNs.cfg"), "ns"), ("AutocertRenew_GenS.cfg", "s")):
        g = ctx.tlc_must_hold("AutocertRenew_MC", cfg=cfg, workers=1, timeout=1500)            # R1-R4 + Emit
        if not g.traces:
            raise vlib.Infra("renewal generator %s produced no cases" % cfg)
        ctx.log("renewal grid %s: %d cases" % (unit, len(g.traces)))
        ctx.absorb(ctx.go_test("c51", "TestRenewNext$", cases=g.traces, timeout=1500,
                               env={"C51_UNIT": unit, "C51_RANDOM_NEXT": ctx.pick(3000, 300000)}))
    ctx.absorb(ctx.go_test("c51", "TestRenewPublic$", timeout=300))
    ctx.exhaustive = False
    ctx.notes.append("decision table and renewal grids are replayed exhaustively (RSA issuances sampled); concurrent schedules of the real "
                     "Manager are sampled (seeded) and judged by counting at the CA and by trace validation")
