"""C49 — ACME request signing is standards-conformant.

Spec: spec/JWS.tla — decision model of jwsEncodeJSON/jwsSign/jwkEncode/JWKThumbprint/jwsWithMAC and
of postNoRetry's jwk-or-kid choice against RFC 7515/7518/7638 and RFC 8555 6.2/6.3/7.3.4: exactly
one of jwk/kid (kid iff no key is passed and the account URL is known or found), alg and hash from
key type / curve, ES256/384/512 signatures and EC coordinates of fixed width 32/48/66 octets
whatever the values' leading zero octets, thumbprint members in lexicographic order, POST-as-GET
with an empty payload, EAB = HS256 over the account JWK with kid and url and no nonce.

TLC checks J1-J6 over key type x coordinate shape x signature shape x operation x kid state x EAB
and emits each case with the expected decisions.  Binding R: harness/c49 is the independent JOSE
implementation — it runs the operation through the PUBLIC acme.Client API against the fake
RoundTripper, parses the JSON actually sent and verifies it with the standard library only
(ecdsa.Verify on the split R||S, rsa.VerifyPKCS1v15, crypto/hmac), rebuilding the key from the JWK
on the wire and the thumbprint from scratch; keys and signatures with leading zero octets are
found by search (search effort is in the evidence).
"""
import json
import vlib


def run(ctx):
    ctx.level = "model_checking"
    ctx.rule = ("cases = (key type RSA/P-256/P-384/P-521, leading-zero shape of x / y, of R / S (of the RSA signature integer), operation "
                "of the public API, kid state preset / lookup succeeds / lookup fails, EAB) enumerated by TLC from JWS_MC; signature shapes "
                "are explored on one operation per key type (a signature's shape does not depend on the operation); every request "
                "captured on the way is verified too; distinct = distinct case tuple")
    ctx.assumptions = [
        "the harness' verifier uses only the Go standard library (encoding/json, base64, crypto/ecdsa, crypto/rsa, crypto/hmac, crypto/sha256/512); it is the 'independent JOSE implementation' (no Python JOSE library is installed offline)",
        "RSA keys are 2048-bit; ECDSA keys with leading zero octets in a coordinate are found by rejection sampling, signatures by repeating the request",
        "the fake server answers every request with success; nonce handling is C50's subject",
    ]
    if ctx.replay:
        d = (json.load(open(ctx.replay)).get("violation") or {}).get("detail") or {}
        if isinstance(d, dict) and d.get("case"):
            ctx.absorb(ctx.go_test("c49", "TestJWS$", cases=[d["case"]], timeout=600))
            return
    cfg = ctx.pick("JWS_Quick.cfg", "JWS_Full.cfg")
    g = ctx.tlc_must_hold("JWS_MC", cfg=cfg, workers=1, timeout=900)       # J1-J6 + Emit in one run
    if not g.traces:
        raise vlib.Infra("JWS generator produced no cases")
    ctx.log("JWS: %d cases" % len(g.traces))
    ctx.absorb(ctx.go_test("c49", "TestJWS$", cases=g.traces, timeout=1500))
    ctx.absorb(ctx.go_test("c49", "TestThumbprints$", timeout=900))
    ctx.exhaustive = True
    ctx.notes.append("exhaustive over the enumerated decision cases; the value space of keys, nonces, URLs and payloads is sampled")
