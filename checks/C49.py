"""C49 — ACME request signing is standards-conformant.

Spec: spec/JWS.tla — decision model of jwsEncodeJSON/jwsSign/jwkEncode/JWKThumbprint/jwsWithMAC and
of postNoRetry's jwk-or-kid choice against RFC 7515/7518/7638 and RFC 8555 6.2/6.3/7.3.4: exactly
one of jwk/kid (kid iff no key is passed and the account URL is known or found), alg and hash from
key type / curve, ES256/384/512 signatures and EC coordinates of fixed width 32/48/66 octets
whatever the values' leading zero octets, thumbprint members in lexicographic order, POST-as-GET
with an empty payload, EAB = HS256 over the account JWK with kid and url and no nonce.

TLC checks J1-J6 over key type x coordinate shape x signature shape x operation x kid state x EAB
and emits each case with the expected decisions.  Binding R: harness/c49 is the independent JOSE
implementation — it runs the operation through the PUBLIC acme.Client API against the fake
RoundTripper, parses the JSON actually sent and verifies it with the standard library only
(ecdsa.Verify on the split R||S, rsa.VerifyPKCS1v15, crypto/hmac), rebuilding the key from the JWK
on the wire and the thumbprint from scratch; keys and signatures with leading zero octets are
found by search (search effort is in the evidence).

Spec: spec/JWKEnc.tla — executable RFC 7517/7518/7638 JWK encoder on octet sequences (RSA n/e =
Base64urlUInt: minimal big-endian; EC x/y = fixed curve width, left-padded; base64url; member order).
TLC evaluates it on the BOUNDARY key set exported by the harness (RSA public exponents 3, 5, 17,
257, 65535, 65537, 2^24+1, 2^31-1; moduli of 2048 / 2047 / 2041 / 2040 bits = top octet at every
kind of boundary; P-256/384/521 points with short X, short Y, both, none - deterministic d*G),
checks K1 (minimality) and K2 (fixed width), and its text is compared with the jwk header member of
requests signed by the real client with those keys, the EAB inner payload, JWKThumbprint and the
key authorizations of http-01, dns-01 and tls-alpn-01.  Vacuity guard: exit 2 unless small
exponents and short X / short Y / both on every curve were exercised.
"""
import json
import vlib


def _seq(l):
    return "<<" + ", ".join(str(int(x)) for x in l) + ">>"


def _jwk_bytes(ctx):
    """JWKEnc.tla evaluated by TLC on the harness' boundary key set; text compared with the real code's output."""
    km = ctx.go_test("c49", "TestKeyMaterial$", timeout=600)
    keys = (km.get("extra") or {}).get("keys") or []
    if not keys:
        raise vlib.Infra("harness exported no boundary keys")
    recs = ['  [id |-> "%s", kty |-> "%s", crv |-> "%s", a |-> %s,\n   b |-> %s]' % (k["id"], k["kty"], k["crv"], _seq(k["a"]), _seq(k["b"]))
            for k in keys]
    mod = ("------------------------------- MODULE JWKKeys -------------------------------\n"
           "Keys == {\n" + ",\n".join(recs) + "\n}\n"
           "=============================================================================\n")
    r = ctx.tlc_must_hold("JWKEnc_MC", cfg="JWKEnc_MC.cfg", workers=1, timeout=900, files={"JWKKeys.tla": mod})   # K1, K2 + Emit
    if len(r.traces) != len(keys):
        raise vlib.Infra("JWKEnc: %d keys, %d encodings" % (len(keys), len(r.traces)))
    res = ctx.go_test("c49", "TestJWKBytes$", cases=r.traces, timeout=900)
    ctx.absorb(res)
    ex = res.get("extra") or {}
    need = ["c49_boundary_rsa_exponent_below_65536"] + ["c49_boundary_ec_short_%s_%s" % (s, c) for s in ("x", "y", "x_and_y")
                                                         for c in ("P-256", "P-384", "P-521")]
    need += ["c49_boundary_rsa_modulus_%d_bits" % b for b in (2048, 2047, 2041, 2040)]
    missing = [n for n in need if not ex.get(n)]
    if missing:
        raise vlib.Infra("vacuous JWK boundary run: not exercised: %s" % ", ".join(missing))
    ctx.log("JWK encoder: %d boundary keys (%d RSA with e < 65536), TLC text compared on header / EAB / thumbprint / key authorizations"
            % (len(keys), ex.get("c49_boundary_rsa_exponent_below_65536", 0)))


def run(ctx):
    ctx.level = "model_checking"
    ctx.rule = ("cases = (key type RSA/P-256/P-384/P-521, leading-zero shape of x / y, of R / S (of the RSA signature integer), operation "
                "of the public API, kid state preset / lookup succeeds / lookup fails, EAB) enumerated by TLC from JWS_MC; signature shapes "
                "are explored on one operation per key type (a signature's shape does not depend on the operation); every request "
                "captured on the way is verified too; distinct = distinct case tuple")
    ctx.assumptions = [
        "the harness' verifier uses only the Go standard library (encoding/json, base64, crypto/ecdsa, crypto/rsa, crypto/hmac, crypto/sha256/512); it is the 'independent JOSE implementation' (no Python JOSE library is installed offline)",
        "RSA keys are 2048-bit; ECDSA keys with leading zero octets in a coordinate are found by rejection sampling, signatures by repeating the request",
        "the fake server answers every request with success; nonce handling is C50's subject",
        "boundary RSA keys are built from fixed primes (d = e^-1 mod lcm(p-1,q-1), rsa.PrivateKey.Validate), boundary EC keys are d*G for the first small d with the wanted shape; SHA-256 of TLC's JWK text is computed with crypto/sha256",
    ]
    if ctx.replay:
        d = (json.load(open(ctx.replay)).get("violation") or {}).get("detail") or {}
        if isinstance(d, dict) and d.get("case"):
            ctx.absorb(ctx.go_test("c49", "TestJWS$", cases=[d["case"]], timeout=600))
            return
    _jwk_bytes(ctx)
    if ctx.violations:
        return
    cfg = ctx.pick("JWS_Quick.cfg", "JWS_Full.cfg")
    g = ctx.tlc_must_hold("JWS_MC", cfg=cfg, workers=1, timeout=900)       # J1-J6 + Emit in one run
    if not g.traces:
        raise vlib.Infra("JWS generator produced no cases")
    ctx.log("JWS: %d cases" % len(g.traces))
    ctx.absorb(ctx.go_test("c49", "TestJWS$", cases=g.traces, timeout=1500))
    ctx.absorb(ctx.go_test("c49", "TestThumbprints$", timeout=900))
    ctx.exhaustive = True
    ctx.notes.append("exhaustive over the enumerated decision cases; the value space of keys, nonces, URLs and payloads is sampled")
