"""X08 (growth) -- OpenPGP entity validity and key selection rules of golang.org/x/crypto/openpgp.

Spec: spec/PGPKeySel.tla (+ _MC).  Two layers of pure operators -- Parse (which self-signature / binding signature /
revocation every component of a well-formed wire entity ends up with: addUserID, addSubkey, shouldReplaceSubkeySig) and
the selection functions on the parsed entity (primaryIdentity, encryptionKey, signingKey, KeysById, KeysByIdUsage,
DecryptionKeys, Encrypt / Sign result classes, Entity.Serialize round trip), every loop over the Identities map
parameterised by an iteration order -- next to the declarative rules K1-K7 with the RFC 4880 notion of expiry, checked
by TLC for ALL small entities of the menu slices; plus a state machine (an entity evolving in time) with the action
properties L1-L4.

Five decisions of the code are switchable in the model (FixPrec, FixBase, FixZero, FixRevReason, FixSerRev; FALSE =
the code as found).  With all five TRUE the rules hold; each Doc*.cfg keeps the counterexample of one decision (and of
the laxities modelled as they are: key revocations ignored by Encrypt / Sign, map iteration order, DecryptionKeys
without the primary key, last-parsed user id self-signature, revoked user ids kept).

Binding R (harness/x08): TestProbe plays the smallest entity for each switchable decision on the real code; a decision
made the old way is a violation with its own signature (X08-F1..F5) and sets the model constant, so that the generator
predicts the code as it is.  TLC then emits every entity of the slices with the predicted answers (sets of allowed
answers where the Go map order matters); the harness builds each as real packets (own signature packets: key
expiration 0, primary-user-id 0, reason for revocation, cross-signatures), reads it with ReadEntity and compares the
kept signatures, encryptionKey / signingKey / primaryIdentity (hook verif_keys.go), KeysById, KeysByIdUsage,
DecryptionKeys, Encrypt -> PKESK key id -> ReadMessage, Sign -> one-pass signature -> ReadMessage, DetachSign ->
CheckDetachedSignature, and everything again after Entity.Serialize -> ReadEntity.  The rules K1-K6 are also judged on
the real objects alone, before the model is consulted.  GnuPG (optional) is asked for its own choice under
--faked-system-time."""
import concurrent.futures as cf
import json, os, re, subprocess, threading, time
import vlib

MOD = "PGPKeySel_MC"
FIXES = ["FixPrec", "FixBase", "FixZero", "FixRevReason", "FixSerRev"]
# documented counterexamples: cfg -> invariant that must be violated
DOCS = {
    "PGPKeySel_DocPrec.cfg": "InvK1", "PGPKeySel_DocPrecSign.cfg": "InvK2", "PGPKeySel_DocPrecAlgo.cfg": "InvK5x",
    "PGPKeySel_DocBase.cfg": "InvK1", "PGPKeySel_DocZero.cfg": "InvK1", "PGPKeySel_DocRevReason.cfg": "InvK3",
    "PGPKeySel_DocSerRev.cfg": "InvK7", "PGPKeySel_DocRevokedEntity.cfg": "DocK3x", "PGPKeySel_DocMapOrder.cfg": "DocK4x",
    "PGPKeySel_DocDecPrimary.cfg": "DocK6x", "PGPKeySel_DocIdNewest.cfg": "DocP1x", "PGPKeySel_DocRevokedId.cfg": "DocP2x",
}
QUICK = ["Quick"]        # the union of the slices SelQ, Sub2Q, Id2Q, ParseQ, Pub in one run
THOROUGH = ["Sel", "Sub2", "Sub3", "Id2", "Id3", "ParseId", "ParseSub", "Pub"]


def _cfg_with(path, fix):
    txt = open(os.path.join(vlib.VERIF, "spec", path)).read()
    for k in FIXES:
        txt, n = re.subn(r"%s = (TRUE|FALSE)" % k, "%s = %s" % (k, "TRUE" if fix[k] else "FALSE"), txt)
        if n != 1:
            raise vlib.Infra("%s: constant %s not found" % (path, k))
    return txt


def run(ctx):
    ctx.level = "model_checking"
    T = ctx.thorough
    ctx.rule = ("cases = wire entities enumerated by TLC from the menu slices of PGPKeySel_MC (one user id x every self-signature "
                "of the menu x at most one subkey with every signature; two and three subkeys; two and three user ids with primary "
                "flags, differing key flags and lifetimes; one to three signatures per user id / subkey; public-only primary keys and "
                "subkeys), each queried at the instants 1..4 (before, exactly at and after every expiry; key creation and signature "
                "creation may differ), plus every reachable state of the evolution model; distinct = distinct (wire entity, instants)")
    ctx.assumptions = [
        "entities are well formed (X03 covers the keyring grammar): every signature is made by the primary key and verifies; signing "
        "subkeys carry a valid cross-signature; at least one user id has an accepted self-signature",
        "time scale 0..4, one unit = one second from 2020-01-01T00:00:00Z; lifetimes absent / 0 / 1 / 2 / 3",
        "key material: RSA-1024 and ECDSA P-256 primary keys, RSA-1024 / ECDSA P-256 / ElGamal-1024 subkeys, generated once per run; "
        "DSA keys behave like ECDSA for every decision modelled (sign only) and are not built",
        "Entity.Identities is a Go map: where the result depends on the iteration order the model gives the set of results over all "
        "orders and every real result must be in it (each such query is repeated 6 times)",
        "model-vs-code differences on tie-breaks nobody documents (which of two equally new binding signatures / encryption subkeys, "
        "which of several usable signing subkeys) are counted (x08_tiebreak_*) and do not affect the exit status",
        "the instant of expiry itself (creation + lifetime = now) counts as not yet expired, as in the code and in GnuPG",
        "v3 keys, encrypted private keys, SerializePrivate (which re-signs), third-party certifications, designated revokers, "
        "revocation signatures that themselves carry key flags, and subkey binding signatures older than the subkey are outside the menus",
        "hook /repo/openpgp/verif_keys.go exports encryptionKey / signingKey / primaryIdentity unchanged",
        "GnuPG 2.2 (when installed) is an amplifier: its choice of encryption key under --faked-system-time is recorded next to the "
        "package's; a disagreement is informational",
    ]
    if ctx.replay:
        ctx.notes.append("replay: the whole tier is re-run (cases are generated, not stored)")
    have_gpg = ctx.have("gpg")
    if not have_gpg:
        ctx.skipped.append("gpg not installed: the GnuPG comparison (TestGPG) was skipped")

    binary = ctx.tmp("x08.test")
    cmd = [vlib.GO, "test", "-c", "-vet=off", "-tags", "verif", "-o", binary, "./x08/"]
    p = subprocess.run(cmd, cwd=os.path.join(vlib.VERIF, "harness"), env=ctx.go_env({}), capture_output=True, text=True, timeout=900)
    if p.returncode != 0 or not os.path.exists(binary):
        raise vlib.Infra("building harness/x08 failed (rc=%d):\n%s\n%s" % (p.returncode, p.stdout[-3000:], p.stderr[-3000:]))

    seq = [0]
    lock = threading.Lock()
    go_results = []

    def go(test, cases=None, env=None, timeout=1500):
        with lock:
            seq[0] += 1
            k = seq[0]
        outp = ctx.tmp("x08_out_%d.json" % k)
        e = {"VERIF_OUT": outp}
        if cases is not None:
            cp = ctx.tmp("x08_cases_%d.ndjson" % k)
            with open(cp, "w") as fh:
                for c in cases:
                    fh.write(json.dumps(c, separators=(",", ":")) + "\n")
            e["VERIF_CASES"] = cp
        e.update(env or {})
        t0 = time.time()
        p = subprocess.run([binary, "-test.run", test, "-test.count=1", "-test.timeout", "%ds" % timeout],
                           cwd=os.path.join(vlib.VERIF, "harness", "x08"), env=ctx.go_env(e), capture_output=True, text=True)
        with lock:
            ctx.extra.setdefault("go_runs", []).append({"pkg": "x08", "run": test, "wall_s": round(time.time() - t0, 1), "rc": p.returncode,
                                                        "cases": len(cases) if cases is not None else 0})
        if not os.path.exists(outp):
            raise vlib.Infra("harness x08/%s produced no result (rc=%d):\n%s\n%s" % (test, p.returncode, p.stdout[-6000:], p.stderr[-3000:]))
        with open(outp) as fh:
            r = json.load(fh)
        os.unlink(outp)
        if cases is not None:
            os.unlink(e["VERIF_CASES"])
        if p.returncode != 0 and not r.get("violations"):
            raise vlib.Infra("harness x08/%s failed without recording a violation (rc=%d):\n%s\n%s" % (test, p.returncode, p.stdout[-6000:], p.stderr[-3000:]))
        with lock:
            go_results.append((test, r))
        ctx.log("%s: %d evaluations, %d distinct, %d violations recorded, %.0fs" % (test, r.get("evaluations", 0), r.get("distinct", 0),
                len(r.get("violations") or []), time.time() - t0))
        return r

    # ---- which of the five switchable decisions does the code under test make the old way?
    probe = go("TestProbe$")
    fix = (probe.get("extra") or {}).get("fix")
    if not isinstance(fix, dict) or sorted(fix) != sorted(FIXES):
        raise vlib.Infra("probe did not report the five decisions: %r" % (fix,))
    ctx.extra["x08_model_constants_from_probe"] = fix
    ctx.log("probe: " + " ".join("%s=%s" % (k, fix[k]) for k in FIXES))

    slices = THOROUGH if T else QUICK
    life_mc = "PGPKeySel_LifeBig.cfg" if T else "PGPKeySel_Life.cfg"
    life_gen = "PGPKeySel_GenLifeBig.cfg" if T else "PGPKeySel_GenLife.cfg"
    jobs = []      # (kind, cfg, workers)
    for s in slices:
        jobs.append(("gen", "PGPKeySel_Gen%s.cfg" % s, 4))
    jobs.append(("gen", life_gen, 4))
    for s in slices:
        jobs.append(("mc", "PGPKeySel_%s.cfg" % s, 4))
    jobs.append(("mc", life_mc, 6 if T else 4))
    if T:
        for c in sorted(DOCS):
            jobs.append(("doc", c, 1))
    else:
        ctx.notes.append("the documented model-level counterexamples (PGPKeySel_Doc*.cfg) are run in the thorough tier")
    if os.environ.get("VERIF_SKIP_MC"):          # development aid for mutation runs; recorded in the evidence
        jobs = [j for j in jobs if j[0] == "gen"]
        ctx.skipped.append("VERIF_SKIP_MC set: the model-checking configurations were skipped, only the generators ran")
    big = {"PGPKeySel_Sub2.cfg": 8, "PGPKeySel_GenSub2.cfg": 8, "PGPKeySel_Sel.cfg": 6, "PGPKeySel_GenSel.cfg": 6,
           "PGPKeySel_Quick.cfg": 8, "PGPKeySel_GenQuick.cfg": 8}

    res, errs = {}, []
    ncases = {}

    def one(job):
        kind, cfg, w = job
        w = big.get(cfg, w)
        if kind == "gen":
            r = ctx.tlc(MOD, cfg_text=_cfg_with(cfg, fix), workers=w, timeout=1700, count=False, heap="3g",
                        note="case generator %s with the constants of the probe" % cfg)
            if not r.ok:
                raise vlib.Infra("generator %s failed: %s" % (cfg, (r.cex or r.raw[-2000:])[:3000]))
            if not r.traces:
                raise vlib.Infra("generator %s produced no cases" % cfg)
            ncases[cfg] = len(r.traces)
            traces, r.traces, r.raw = r.traces, None, ""
            go("TestReplay$", traces, timeout=2400)
        elif kind == "mc":
            r = ctx.tlc(MOD, cfg=cfg, workers=w, timeout=1700, count=False, heap="3g")
            if not r.ok:
                raise vlib.Infra("design model %s: %s violated (model-level counterexample, not reproduced on code):\n%s"
                                 % (cfg, r.violated or "postcondition", (r.cex or r.raw[-3000:])[:6000]))
            r.raw = ""
        else:
            r = ctx.tlc(MOD, cfg=cfg, workers=w, timeout=900, count=False, heap="2g", expect_violation=True,
                        note="documented counterexample: %s must be violated" % DOCS[cfg])
            if r.violated != DOCS[cfg]:
                raise vlib.Infra("%s: expected the documented counterexample to %s, TLC says violated=%r" % (cfg, DOCS[cfg], r.violated))
            r.raw = ""
        res[(kind, cfg)] = r

    with cf.ThreadPoolExecutor(max_workers=8) as ex:
        futs = [ex.submit(one, j) for j in jobs]
        if have_gpg:
            futs.append(ex.submit(go, "TestGPG$", None, {"VERIF_X08_GPGN": 120 if T else 24}, 1500))
        for f in futs:
            try:
                f.result()
            except vlib.Infra as e:
                errs.append(str(e))

    for test, r in go_results:
        ctx.absorb(r)
    if errs:
        if ctx.violations and all("harness x08/" in e for e in errs):
            ctx.notes.append("a harness part died without a result while others recorded violations: " + " | ".join(e[:300] for e in errs))
            return
        raise vlib.Infra("; ".join(errs)[:8000])
    for (kind, cfg), r in sorted(res.items()):
        if kind == "mc":
            ctx.states += r.distinct
            ctx.transitions += r.generated
        ctx.log("TLC %-4s %-34s %9d generated %9d distinct %6.1fs%s" % (kind, cfg, r.generated, r.distinct, r.wall,
                "  (documented counterexample: %s)" % r.violated if kind == "doc" else ""))
    ctx.extra["x08_cases_per_generator"] = ncases
    if T:
        ctx.extra["documented_model_counterexamples"] = sorted("%s: %s" % (c, v) for c, v in DOCS.items())
    ctx.notes.append("model constants follow the code under test (probe): a decision made the old way is reported by TestProbe and by the "
                     "rule checks on the real objects under its own signature (X08-F1..F5), never hidden by the model")
    ctx.exhaustive = True
