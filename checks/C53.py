"""C53 - in-place and overlapping buffers are handled as documented.

Specs: spec/Alias.tla (buffers as intervals of one arena; internal/alias AnyOverlap / InexactOverlap
transcribed and model-checked equal to their documented cell-sharing meaning; sliceForAppend; per API
class the documented contract `Allowed`, the alias checks the code performs `Panics`, and the code's
dataflow as a program of read / write / element-wise steps with a read-after-overwrite hazard
analysis; the property: InPlaceWorks and MisuseCaught), spec/AliasExec.tla (the hazard analysis is
sound w.r.t. a symbolic-memory execution of the same programs, for every order in which an
element-wise step may be carried out; checked in the same run as the small instance), spec/Alias_MC.tla (small exhaustive instance; real-size
instance = the property's quantifier: offsets -64..64 x lengths x prefix x capacity x AD placement).

TLC (a) model-checks the small instance exhaustively, (b) must find MisuseCaught violated without the
named exceptions (the three deviations of the code that the model exhibits), (c) checks the real-size
instance and prints, per group, the verdict for all 129 offsets.  The Go harness replays every case
on the real functions, on the default build (amd64 assembly, unsafe-based alias package) and on the
purego build (portable code, reflect-based alias package), judging "same result" against the
separate-buffer run of the same call."""
import concurrent.futures, json, os
import vlib

# the deviations of the code from MisuseCaught that spec/Alias.tla names (Alias!Deviation) = signatures "c53-<name>" in known_findings.json
DEVIATIONS = ["salsa.XORKeyStream-inexact-overlap-unchecked", "box.SealAnonymous-message-overlaps-ephemeral-key-slot", "aead.Open-asm-output-overlaps-tag"]


def _fixed_deviations(ctx):
    """A deviation is modelled as repaired (constant Fixed of Alias.tla) once known_findings.json lists its finding with status "fixed"
    (VERIF_C53_FIXED=name,name overrides, for trying the check against a patched copy of the repository)."""
    ov = os.environ.get("VERIF_C53_FIXED")
    if ov is not None:
        return {d for d in DEVIATIONS if d in ov.split(",")}
    out = set()
    try:
        with open(os.path.join(vlib.VERIF, "known_findings.json")) as fh:
            for k in json.load(fh):
                if k.get("property") == "C53" and k.get("status") == "fixed" and str(k.get("signature", "")).startswith("c53-") and k["signature"][4:] in DEVIATIONS:
                    out.add(k["signature"][4:])
    except FileNotFoundError:
        pass
    return out


def _cfg(name, fixed):
    txt = open(os.path.join(vlib.VERIF, "spec", name)).read()
    if "Fixed = {}" not in txt:
        raise vlib.Infra("%s has no 'Fixed = {}' line" % name)
    return txt.replace("Fixed = {}", "Fixed = {%s}" % ", ".join('"%s"' % d for d in sorted(fixed)))


def run(ctx):
    ctx.level = "model_checking"
    ctx.rule = ("cases = (API, payload length n, offset d of the output's first byte relative to the input's first byte, dst prefix length, capacity variant, "
                "additional-data placement, build); d in -64..64; n in {0,1,16,64,65} (thorough {0,1,16,63,64,65,200}; xts whole blocks {0,16,64[,208]}); prefix 0|5; "
                "capacity exact|one short (realloc)[|9 spare]; AD separate|across the output's start|across its end|on the kept prefix[|inside the input]; "
                "APIs: chacha20 (fresh and with buffered keystream, 12/24-byte nonce), salsa20 (8/24), salsa (assembly/portable), xts Encrypt/Decrypt (AES), "
                "chacha20poly1305 + xchacha20poly1305 Seal/Open (assembly on the default build, generic on purego), secretbox/box Seal/Open(+AfterPrecomputation), "
                "box SealAnonymous/OpenAnonymous, sign Sign/Open; distinct = cases whose buffers are not far apart (|d| within the buffers' extent + 8)")
    ctx.assumptions = [
        "documented contracts as written in the source comments of this commit (chacha20/salsa20/salsa/xts: 'overlap entirely or not at all'; crypto/cipher.AEAD; nacl: 'out must not overlap')",
        "'same result' = returned slice (kept prefix || output) and ok/err flag equal to those of the same call with separate buffers and identical inputs; "
        "the input buffer itself may be overwritten by an overlapping output",
        "key, nonce and tag-internal aliasing (nonce or key overlapping the output) is not part of the documented contracts and is not driven",
        "the assembly AEAD path needs AVX2+BMI2 (present on this CPU); other architectures' assembly is not executed",
    ]
    T = "T" if ctx.thorough else "Q"
    fixed = _fixed_deviations(ctx)
    jobs = {
        "small": dict(module="AliasExec", cfg_text=_cfg("AliasExec_%s.cfg" % T, fixed), workers=ctx.pick(6, 8),
                      note="small exhaustive instance: AliasDocOK for every buffer pair; InPlaceWorks and MisuseCaughtExcept for every call; "
                           "hazard analysis sound w.r.t. symbolic-memory execution under every element-wise order"),
        "strict": dict(module="Alias_MC", cfg_text=_cfg("Alias_SmallStrict.cfg", fixed), workers=1, expect_violation=True,
                       note="MisuseCaught without the named exceptions: expected counterexample while a deviation is open"),
        "nonvac": dict(module="AliasExec", cfg_text=_cfg("AliasExec_NonVacuous.cfg", fixed), workers=1, expect_violation=True,
                       note="non-vacuity: some call with a hazard really computes a different result"),
        "gen": dict(module="Alias_MC", cfg_text=_cfg("Alias_Gen%s.cfg" % T, fixed), workers=ctx.pick(6, 10),
                    note="real-size instance: property checked and verdicts printed for every offset"),
    }
    if not ctx.thorough:
        del jobs["nonvac"]
    res = {}
    with concurrent.futures.ThreadPoolExecutor(max_workers=len(jobs)) as ex:
        futs = {k: ex.submit(ctx.tlc, timeout=2400, count=False, **kw) for k, kw in jobs.items()}
        for k, f in futs.items():
            res[k] = f.result()
    open_devs = [d for d in DEVIATIONS if d not in fixed]
    if open_devs and res["strict"].violated != "CallsOK":
        raise vlib.Infra("Alias_SmallStrict was expected to violate CallsOK (the model exhibits the open deviations %s), got %r" % (open_devs, res["strict"].violated))
    if not open_devs and not res["strict"].ok:
        raise vlib.Infra("with every deviation repaired MisuseCaught must hold without exceptions in the model, but %r is violated" % res["strict"].violated)
    if "nonvac" in res and res["nonvac"].violated != "NoHazardEverMatters":
        raise vlib.Infra("non-vacuity check failed: NoHazardEverMatters was expected to be violated, got %r" % res["nonvac"].violated)
    for k in ("small", "gen"):
        r = res[k]
        if not r.ok:      # a counterexample in the design model alone is never a verdict
            raise vlib.Infra("design model %s: %s violated:\n%s" % (k, r.violated, (r.cex or r.raw[-3000:])[:6000]))
        ctx.states += r.distinct
        ctx.transitions += r.generated
        ctx.log("%s: %d distinct states, %d TRACE lines, %.0fs" % (k, r.distinct, len(r.traces), r.wall))
    if fixed:
        ctx.notes.append("deviations modelled as repaired (known_findings.json status fixed): %s" % sorted(fixed))
    groups = res["gen"].traces
    if len(groups) < 100:
        raise vlib.Infra("Alias_MC generated too few groups (%d)" % len(groups))
    ncases = sum(len(g["pred"]) for g in groups)
    ctx.extra["model_cases"] = ncases
    ctx.extra["model_outcomes"] = {k: sum(g["pred"].count(k) for g in groups) for k in "PSU"}
    ctx.extra["model_allowed"] = sum(g["allowed"].count("A") for g in groups)
    if ctx.replay:
        ctx.notes.append("replay: the whole (deterministic, seeded) case set is re-run")
    for path, tg in (("asm", "verif"), ("purego", "verif,purego")):
        r = ctx.go_test("c53", "TestAlias", cases=groups, tags=tg, timeout=2400, env={"VERIF_C53_PATH": path})
        ex = r.get("extra") or {}
        ctx.log("replay %s: %d evaluations, %d violations, %s model mismatches" % (path, r.get("evaluations", 0), len(r.get("violations") or []), ex.get("model_mismatch_" + path, 0)))
        ctx.absorb(r)
    mm = sum(int(ctx.extra.get("model_mismatch_" + p, 0)) for p in ("asm", "purego"))
    if mm:
        ctx.notes.append("%d cases where the real code's panic behaviour differs from the model's prediction without contradicting the property (informational; see model_mismatch_samples_*)" % mm)
    ctx.exhaustive = True
    ctx.notes.append("exhaustive over the stated offset/length/prefix/capacity/AD grid; buffer contents and keys sampled")
