"""C08 - SHA-3, SHAKE, cSHAKE and legacy Keccak match FIPS 202 / Keccak; Sum pure, Clone independent,
Write/Sum after Read panic.

Specs: spec/PrimKeccak.tla (executable Keccak-f[1600] on 16-bit limbs, sponge, the four domain paddings,
SP 800-185 encodings; ASSUMEs of the published digests), spec/SpongeBuf.tla (abstract state machine of the
hash objects: mode, absorbed, outPos; Write/Read/Sum/Clone/Reset with the property as invariants and action
properties), spec/SpongeBufImpl.tla (transcription of the (a, n, rate, state) bookkeeping of legacy_hash.go
and of the shakeWrapper flag/Clone/Sum of shake.go over symbolic bytes; TLC checks byte-for-byte equality
with the sponge definition on a scaled rate and the refinement SpongeBufImpl => SpongeBuf),
spec/SpongeBuf_Gen.tla (history generator), spec/SpongeBuf_Tags.tla (TLC-evaluated output streams).

The Go harness (harness/c08) replays every history on the real sha3 objects and compares every returned byte
and every panic with the model's prediction; expected bytes are the TLC-evaluated streams where available and
otherwise a Go transcription of PrimKeccak validated against all TLC-evaluated streams in the same run."""
import concurrent.futures, hashlib, json, random
import vlib

SYM = 10000
FNS = {  # name -> (kind, rate)
    "sha3-224": ("fixed", 144), "sha3-256": ("fixed", 136), "sha3-384": ("fixed", 104), "sha3-512": ("fixed", 72),
    "shake128": ("shake", 168), "shake256": ("shake", 136), "cshake128": ("shake", 168), "cshake256": ("shake", 136),
    "keccak256": ("legacy", 136), "keccak512": ("legacy", 72),
}
HASHLIB = {"sha3-224": "sha3_224", "sha3-256": "sha3_256", "sha3-384": "sha3_384", "sha3-512": "sha3_512",
           "shake128": "shake_128", "shake256": "shake_256"}


def _pat(seed, n):
    """PrimWords!Pat"""
    if seed == 0:
        return bytes(n)
    if seed == 1:
        return bytes([255]) * n
    return bytes((((seed * 131 + i * 197 + (i // 7) * 31 + 17) ^ (((i % 251) * (i % 241) + seed) % 256)) % 256) for i in range(n))


def _sim_cfg(kinds, rnd, depth):
    """real lengths: the neighbourhood of every rate plus seeded random lengths 0..1000; every simulated history is replayed on
    every function of its kind"""
    w, r = {0, 1, 2}, {0, 1, 31, 32, 64, 1000}
    for rate in (72, 104, 136, 144, 168):
        w |= {rate - 1, rate, rate + 1, 2 * rate + 1}
        r |= {rate - 1, rate, rate + 1}
    w |= {rnd.randrange(0, 1001) for _ in range(8)}
    r |= {rnd.randrange(0, 1001) for _ in range(6)}
    return ("SPECIFICATION GSpec\nCONSTANTS\n  Kinds = {%s}\n  WSet = {%s}\n  RSet = {%s}\n  MaxLen = 1000\n  MaxOut = 1000\n"
            "  MaxObjs = 3\n  ShakeResetAfterRead = FALSE\n  Depth = %d\nINVARIANTS Emit\nCHECK_DEADLOCK FALSE\n"
            % (", ".join('"%s"' % k for k in kinds), ", ".join(map(str, sorted(w))), ", ".join(map(str, sorted(r))), depth))


def _third_opinion(ctx, tags):
    """hashlib (OpenSSL/CPython Keccak) as an optional third opinion on the TLC-evaluated streams: a difference means the
    TLA+ definition (or hashlib) is wrong - never a verdict about golang/crypto."""
    n = 0
    for t in tags:
        hn = HASHLIB.get(t["fn"])
        if not hn or not hasattr(hashlib, hn):
            continue
        msg = _pat(t["seed"], t["len"])
        z = bytes(t["z"])
        h = getattr(hashlib, hn)(msg)
        got = h.digest(len(z)) if hn.startswith("shake") else h.digest()
        if got != z[:len(got)]:
            raise vlib.Infra("TLC-evaluated PrimKeccak stream differs from hashlib.%s for len %d: the definition is wrong" % (hn, t["len"]))
        n += 1
    ctx.extra["tlc_streams_confirmed_by_hashlib"] = n
    if n == 0:
        ctx.skipped.append("hashlib sha3/shake not available: third opinion on the TLC-evaluated streams skipped")


def run(ctx):
    ctx.level = "model_checking"
    T = "T" if ctx.thorough else "Q"
    ctx.rule = ("cases = (function, call history, data): histories = every maximal sequence of <= Depth calls Write/Read/Sum/Clone/Reset over the "
                "length alphabet {0, 1, rate-1, rate, rate+1} (reads also 2*rate+1) on up to MaxObjs objects, enumerated by TLC from SpongeBuf.tla "
                "(a panicking call ends that object's history), instantiated for each of the 10 functions at its real rate; plus TLC-simulated "
                "histories of depth 10 with lengths 0..1000 (rate neighbourhoods and seeded random lengths), replayed on every function of their kind; data = the pattern stream (TLC-evaluated expected bytes where tabulated) and seeded "
                "random bytes incl. random cSHAKE N/S (validated transcription); plus every TLC-evaluated stream as a one-shot case and a "
                "length sweep with random chunking; distinct = distinct (function, history, data mode)")
    ctx.assumptions = [
        "byte oracle = TLC evaluation of spec/PrimKeccak.tla (anchored by ASSUMEs: FIPS 202 empty-message digests of SHA3-224/256/384/512, SHAKE128/256, "
        "SHA3-256(abc), Keccak-256/512 of the empty message, NIST cSHAKE128/256 samples; rho offsets and round constants computed by the FIPS 202 "
        "recurrences and cross-checked against the literal tables); beyond the TLC-evaluated streams a Go transcription validated against all of them in the same run",
        "SHA3-224/256/384/512 and SHAKE/cSHAKE are thin wrappers over the Go standard library's crypto/sha3 at this commit: for them the check exercises the "
        "wrapper state machine (squeezing flag, Clone via MarshalBinary/UnmarshalBinary, Sum on a clone) and the wiring (rate, domain byte, N/S) - the "
        "standard library's Keccak is trusted base; the legacy Keccak sponge and keccakF1600 are package code and get the byte oracle in full",
        "use of an object after a recovered panic is outside the property: a panicking call ends that object's history",
        "Reset after Read on the SHAKE wrapper is outside the property and not driven in the verdict path (DESIGN section 9, O2: informational probe only)",
        "messages and N/S are sampled (patterned, seeded random), not enumerated; histories exhaustive over the model's alphabet up to the depth bound",
        "exhaustive histories use a symbolic rate (lengths k*R+d decoded per function); the abstract machine is linear in the lengths",
    ]
    mc = {
        "mc_two": dict(module="SpongeBufImpl", cfg="SpongeBufImpl_Two%s.cfg" % T, workers=ctx.pick(4, 8), coverage=ctx.thorough,
                       note="shakeWrapper (SHAKE and cSHAKE prefix) and fixed-output objects, 2 objects: bytes = definition, refinement => SpongeBuf "
                            "(Sum pure, Clone independent/equal, panics iff after Read, reads contiguous)"),
        "mc_one": dict(module="SpongeBufImpl", cfg="SpongeBufImpl_One%s.cfg" % T, workers=ctx.pick(2, 4), coverage=ctx.thorough,
                       note="legacy sponge (n, rate, state) bookkeeping incl. Reset after Read, shakeWrapper, cSHAKE prefix, fixed; one object, "
                            "larger rate/lengths: bytes = definition, refinement => SpongeBuf"),
    }
    if ctx.thorough:
        mc["mc_one3"] = dict(module="SpongeBufImpl", cfg="SpongeBufImpl_One3T.cfg", workers=3, note="one object, rate 3")
        mc["mc_three"] = dict(module="SpongeBufImpl", cfg="SpongeBufImpl_ThreeT.cfg", workers=6, note="3 objects (two Clone calls), rate 2")
        mc["mc_o2"] = dict(module="SpongeBufImpl", cfg="SpongeBufImpl_O2.cfg", workers=1, expect_violation=True,
                           note="documentation (O2): Reset after Read on the SHAKE wrapper - expected counterexample")
    if ctx.thorough:
        gens = {"gen_shake": dict(module="SpongeBuf_Gen", cfg="SpongeBuf_GenSymShakeT.cfg"),
                "gen_legacy": dict(module="SpongeBuf_Gen", cfg="SpongeBuf_GenSymLegacyT.cfg"),
                "gen_fixed": dict(module="SpongeBuf_Gen", cfg="SpongeBuf_GenSymFixedT.cfg")}
    else:
        gens = {"gen_all": dict(module="SpongeBuf_Gen", cfg="SpongeBuf_GenSymQ.cfg")}
    rnd = random.Random(ctx.seed * 7919 + 8)
    sims = {"sim_all": dict(module="SpongeBuf_Gen", cfg_text=_sim_cfg(["shake", "fixed", "legacy"], rnd, 10), simulate=ctx.pick(120, 1200), depth=11)}
    tags_job = dict(module="SpongeBuf_Tags", cfg="SpongeBuf_Tags_%s.cfg" % T, workers=ctx.pick(5, 10))

    if ctx.replay:
        d = json.load(open(ctx.replay))["violation"]["detail"]
        tg = ctx.tlc_must_hold("SpongeBuf_Tags", cfg="SpongeBuf_Tags_Q.cfg", workers=4, timeout=900, count=False)
        tp = ctx.tmp("tags.ndjson")
        open(tp, "w").write("".join(json.dumps(x) + "\n" for x in tg.traces))
        cases = [{"kind": d.get("kind", ""), "fn": d["fn"], "sym": d.get("sym", 0), "h": d["history"]}] if d.get("history") else []
        ctx.absorb(ctx.go_test("c08", "TestReplay", cases=cases, timeout=900, env={"VERIF_C08_TAGS": tp, "VERIF_C08_RANDOM": 3, "VERIF_C08_SWEEP": 0}))
        return

    res = {}
    with concurrent.futures.ThreadPoolExecutor(max_workers=len(mc) + len(gens) + len(sims) + 1) as ex:
        futs = {k: ex.submit(ctx.tlc, timeout=2400, count=False, **kw) for k, kw in mc.items()}
        futs.update({k: ex.submit(ctx.tlc, workers=1, timeout=2400, count=False, **kw) for k, kw in gens.items()})
        futs.update({k: ex.submit(ctx.tlc, workers=1, timeout=2400, count=False, **kw) for k, kw in sims.items()})
        futs["tags"] = ex.submit(ctx.tlc, timeout=2400, count=False, **tags_job)
        for k, f in futs.items():
            res[k] = f.result()
    for k, r in res.items():
        if k == "mc_o2":
            if r.ok:
                raise vlib.Infra("SpongeBufImpl_O2 no longer yields the documented counterexample (Reset after Read on the SHAKE wrapper)")
            ctx.extra["documented_counterexample_O2"] = ("with Reset after Read among the behaviours TLC finds %s violated: shakeWrapper.Reset leaves `squeezing` set, "
                                                         "the next Sum panics although the sponge is absorbing (outside the property; informational)" % r.violated)
            continue
        if not r.ok:      # a counterexample in the design model alone is never a verdict
            raise vlib.Infra("design model %s: %s violated:\n%s" % (k, r.violated, (r.cex or r.raw[-3000:])[:6000]))
        if k.startswith("mc_") or k == "tags":
            ctx.states += r.distinct
            ctx.transitions += r.generated
        zero = [a for a in r.coverage_zero if not (k in ("mc_one", "mc_one3") and a == "Clone")]   # one object: Clone is never enabled there (covered by mc_two/mc_three)
        if zero:
            ctx.notes.append("actions never taken in %s: %s" % (k, zero))
        ctx.log("%s: %d distinct states, %d TRACE lines, %.0fs" % (k, r.distinct, len(r.traces), r.wall))
    tags = res["tags"].traces
    if len(tags) < 40:
        raise vlib.Infra("stream table generator produced too little")
    _third_opinion(ctx, tags)
    tp = ctx.tmp("tags.ndjson")
    open(tp, "w").write("".join(json.dumps(x) + "\n" for x in tags))

    sym, sim = [], []
    for k, r in res.items():
        if k.startswith("gen_"):
            if not r.traces:
                raise vlib.Infra("history generator %s produced nothing" % k)
            sym += r.traces
        elif k.startswith("sim_"):
            seen = set()       # TLC's simulator evaluates the emitting invariant on every successor it generates: drop duplicates
            for t in r.traces:
                key = json.dumps(t, separators=(",", ":"))
                if key not in seen:
                    seen.add(key)
                    sim.append(t)
    cases, counts = [], {}
    for kind in ("legacy", "shake", "fixed"):
        a = [{"kind": kind, "fn": "", "sym": SYM, "h": t["h"]} for t in sym if t["kind"] == kind]
        b = [{"kind": kind, "fn": "", "sym": 0, "h": t["h"]} for t in sim if t["kind"] == kind]
        if not a or not b:
            raise vlib.Infra("no histories for kind %s" % kind)
        counts[kind] = {"enumerated": len(a), "simulated": len(b)}
        cases += a + b
    cp = ctx.tmp("cases.ndjson")
    with open(cp, "w") as fh:
        for c in cases:
            fh.write(json.dumps(c, separators=(",", ":")) + "\n")
    r = ctx.go_test("c08", "TestReplay", cases=cp, timeout=2400,
                    env={"VERIF_C08_TAGS": tp, "VERIF_C08_RANDOM": ctx.pick(1, 2), "VERIF_C08_SWEEP": ctx.pick(300, 1000)})
    ctx.log("replay: %s histories, %d evaluations, %d violations" % (counts, r.get("evaluations", 0), len(r.get("violations") or [])))
    ctx.extra["histories_by_kind"] = counts
    ex = r.get("extra") or {}
    for key in list(ex):
        if key.startswith("info_") or key == "tlc_evaluated_streams":
            ctx.extra[key] = ex.pop(key)
    ctx.absorb(r)
    ctx.exhaustive = True
    ctx.notes.append("exhaustive over the model's call alphabet and depth bound; message/N/S space sampled; the sweep (all functions, every "
                     "length 0..%d, random chunking, Sum mid-stream, reads to 1000 bytes) is judged by the validated transcription" % ctx.pick(300, 1000))
