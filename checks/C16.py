"""C16 - scrypt.Key returns the RFC 7914 key or an error, never a panic.

Spec: spec/KdfScrypt.tla (+ _MC).  TLC (a) model-checks the transcription of scrypt.Key's guards (code order,
floor divisions, uint64 wrap-around; exact 64-bit arithmetic on limbs) against the declarative statement of the
property (RFC 7914 parameter domain + sizes fit in an int + does not exhaust memory; keyLen < 0 -> error,
keyLen = 0 -> zero bytes or error) over the class product N x r x p x keyLen (small classes, the 2^30 / overflow
boundary classes, and a 32-bit-int instance), for the repaired code; with the code as found (no keyLen guard) TLC
must still find the documented counterexample (panic from the pbkdf2 wrapper); (b) emits every tuple with the
outcome the property allows.  The Go harness passes every non-excluded tuple to the REAL scrypt.Key (child process
under an address-space limit, recover) and compares outcome class, nil-ness, length and key bytes (independent
RFC 7914 transcription anchored by the RFC vectors; hashlib.scrypt/OpenSSL as an optional third opinion)."""
import concurrent.futures, json, os, subprocess
import vlib

PY = "/root/.pyenv/versions/3.11.7/bin/python3"
PYCHK = r'''
import sys, json, hashlib
bad = n = 0
for line in open(sys.argv[1]):
    c = json.loads(line)
    try:
        k = hashlib.scrypt(bytes.fromhex(c["pw"]), salt=bytes.fromhex(c["salt"]), n=c["N"], r=c["r"], p=c["p"], dklen=c["keyLen"], maxmem=1 << 30)
    except Exception as e:
        print(json.dumps({"skip": repr(e), "case": c})); continue
    n += 1
    if k.hex() != c["key"]:
        bad += 1
        print(json.dumps({"mismatch": c, "openssl": k.hex()}))
print(json.dumps({"checked": n, "bad": bad}))
'''


def run(ctx):
    ctx.level = "model_checking"
    ctx.rule = ("cases = argument tuples (N, r, p, keyLen) enumerated by TLC from KdfScrypt_MC: N in {-4,0,1,2,3,4,6,16,1024} x r,p in -2..8 (quick: {-2,-1,0,1,2,5,8}) x "
                "keyLen in {-5,-1,0,1,31,32,33,64,65,300}, plus guard-product classes 2^k+d around 2^15, 2^24, 2^29..2^30, 2^32, 2^54..2^56, 2^62, 2^63-1 "
                "for N, r, p with keyLen in {-1,0,32}, plus the machine-integer boundary menu {MinInt, MinInt+1, MinInt/2, -2^32, -2^31, -1, 0, 1, 2, 3, MaxInt32, 2^31, 2^32, 2^62, "
                "MaxInt-1, MaxInt} for N x (quick: 8 of them, thorough: all 16) for r and p x keyLen in {MinInt, -1, 0, 32, MaxInt}; each non-excluded tuple run on the real scrypt.Key with a seeded password/salt "
                "(lengths 0..200); distinct = distinct (N,r,p,keyLen); tuples the model classifies as memory-exhausting (>128 MiB) are outside "
                "the property and not run, valid tuples with N*r*p > 2^20 are model-checked but not run (time)")
    ctx.assumptions = [
        "int is 64-bit on this platform; the 32-bit-int instance (IntBits=31) is model-checked only",
        "'exhausts memory' is read as: the slices scrypt.Key must allocate exceed 2^27 bytes (the model's MemLog2); a makeslice panic or OOM for such arguments is outside the property",
        "RFC 7914 key bytes: RFC section 12 vectors (without the 1 GiB one) and an independent Go transcription of RFC 7914 in the harness, anchored by those vectors on every run; PBKDF2-HMAC-SHA256 from the Go standard library is trusted; Salsa20/8, BlockMix and ROMix are not transcribed into TLA+",
        "a returned error for a tuple inside the RFC 7914 / documented parameter domain is judged a violation (the documentation promises errors only for parameters outside the limits)",
    ]
    jobs = {
        "small": dict(cfg=ctx.pick("KdfScrypt_SmallQ.cfg", "KdfScrypt_Small.cfg"), workers=ctx.pick(5, 8), note="small class product: transcription vs property table (repaired code) + case emission"),
        "big": dict(cfg=ctx.pick("KdfScrypt_BigQ.cfg", "KdfScrypt_Big.cfg"), workers=ctx.pick(5, 8), note="2^30 / overflow boundary classes (64-bit int) + case emission"),
        "bnd": dict(cfg=ctx.pick("KdfScrypt_BndQ.cfg", "KdfScrypt_Bnd.cfg"), workers=ctx.pick(5, 8),
                    note="machine-integer boundary values (MinInt, MinInt+1, MinInt/2, -2^32, -2^31, -1..3, MaxInt32, 2^31, 2^32, 2^62, MaxInt-1, MaxInt) "
                         "for N, r, p, keyLen + case emission"),
        "cur": dict(cfg="KdfScrypt_SmallCur.cfg", workers=1, expect_violation=True,
                    note="code as found (no keyLen guard): expected counterexample NeverPanics (documentation / non-vacuity)"),
    }
    if ctx.thorough:
        jobs["int32"] = dict(cfg="KdfScrypt_Int32.cfg", workers=6, note="32-bit int platforms (maxInt = 2^31-1): model-checked only")
        jobs["bnd32"] = dict(cfg="KdfScrypt_Bnd32.cfg", workers=4, note="32-bit int boundary values (MinInt32 .. MaxInt32): model-checked only")
    if ctx.replay:
        d = json.load(open(ctx.replay))["violation"]["detail"]

        def enc(v):
            neg, v, l = v < 0, abs(v), []
            while v:
                l.append(v % 4096); v //= 4096
            return {"neg": neg, "l": l}
        case = {"N": enc(d["N"]), "r": enc(d["r"]), "p": enc(d["p"]), "keyLen": enc(d["keyLen"]), "want": d["allowed"], "code": d["allowed"], "heavy": False, "valid": False}
        ctx.absorb(ctx.go_test("c16", "TestReplay", cases=[case], timeout=600))
        return
    res = {}
    with concurrent.futures.ThreadPoolExecutor(max_workers=len(jobs)) as ex:
        futs = {k: ex.submit(ctx.tlc, "KdfScrypt_MC", timeout=1500, **kw) for k, kw in jobs.items()}
        for k, f in futs.items():
            res[k] = f.result()
    cur = res.pop("cur")
    if cur.ok or cur.violated != "NeverPanics":
        raise vlib.Infra("KdfScrypt_SmallCur (code without a keyLen guard) no longer yields the NeverPanics counterexample: %s" % cur.violated)
    ctx.extra["documented_counterexample"] = ("without a keyLen guard in scrypt.Key the transcription reaches 'panic' "
                                              "(pbkdf2.Key panics on crypto/pbkdf2's keyLength error): TLC reports NeverPanics violated (finding C16-F1)")
    for k, r in res.items():
        if not r.ok:
            raise vlib.Infra("design model KdfScrypt_MC/%s: %s violated (model-level, not a verdict):\n%s" % (k, r.violated, (r.cex or "")[:4000]))
    cases = res["small"].traces + res["big"].traces + res["bnd"].traces
    if len(cases) < 1000:
        raise vlib.Infra("generator produced too few cases: %d" % len(cases))
    ctx.log("TLC: %d tuples emitted" % len(cases))
    samples = ctx.tmp("c16_samples.ndjson")
    r = ctx.go_test("c16", "TestReplay", cases=cases, timeout=1500, env={"VERIF_C16_SAMPLES": samples})
    ctx.absorb(r)
    ctx.log("replay: %s" % json.dumps(r.get("extra", {}).get("outcomes")))
    # vacuity guard: both ends of the int range must have been run on the real scrypt.Key for every parameter
    ends = r.get("extra", {}).get("int_range_ends_run") or {}
    missing = [k for k in ("N=MinInt", "N=MaxInt", "r=MinInt", "r=MaxInt", "p=MinInt", "p=MaxInt", "keyLen=MinInt", "keyLen=MaxInt") if not ends.get(k)]
    if missing:
        raise vlib.Infra("boundary values not exercised on the real scrypt.Key: %s" % ", ".join(missing))
    ctx.log("int range ends run: %s" % json.dumps(ends, sort_keys=True))
    # optional third opinion: OpenSSL's scrypt through hashlib
    if os.path.exists(PY) and os.path.exists(samples):
        p = subprocess.run([PY, "-c", PYCHK, samples], capture_output=True, text=True, timeout=600)
        last = None
        for line in p.stdout.splitlines():
            try:
                o = json.loads(line)
            except Exception:
                continue
            if "mismatch" in o:
                ctx.violation("scrypt-key-differs-from-openssl", "scrypt.Key output differs from OpenSSL's scrypt (hashlib.scrypt)", o)
            if "checked" in o:
                last = o
        if p.returncode != 0 or last is None:
            ctx.skipped.append("hashlib.scrypt amplifier failed to run: %s" % (p.stderr[-300:],))
        else:
            ctx.extra["hashlib_scrypt_compared"] = last["checked"]
    else:
        ctx.skipped.append("pyenv python with hashlib.scrypt not present: OpenSSL third opinion skipped")
    ctx.exhaustive = True
    ctx.notes.append("exhaustive over the model's argument classes; passwords/salts sampled (seeded)")
