"""C48 - OCSP responses round-trip and are accepted only when signed by the issuer.

Spec: spec/OCSP.tla (+ OCSP_MC): the decision procedure of ParseResponseForCert(bytes, cert, issuer) transcribed over abstract
keys/signatures (signer configurations x responder-id form x status x issuer given/nil x issuer self-signed/intermediate x
cert argument x damaged region), the property's condition "signed by the issuer or by an embedded certificate the issuer
signed" as a declarative predicate, and the request round trip.  TLC checks exhaustively (3528 configurations) that with an
issuer only authorized responses are accepted, that a modification of tbsResponseData / signature / embedded certificate is
rejected, exactly which authorized responses are still refused, what issuer = nil leaves unchecked, serial matching and field
round trip, and that the decision does not depend on identity attributes an impostor copies from the issuer (IdentityIrrelevant, ImpostorRejected: key only); it refutes (documentation) the RFC 6960 OCSPSigning-EKU requirement, which the package does not implement.
Binding R: every configuration is materialised with real RSA/ECDSA keys and crypto/x509 certificates, ocsp.CreateResponse (a
harness DER encoder for the byKey form), damaged at DER-field-sampled (quick) or all (thorough) byte positions of the region,
and parsed by the real code; each acceptance with an issuer is re-judged against the property with crypto/x509."""
import vlib


def run(ctx):
    ctx.level = "model_checking"
    ctx.rule = ("cases = all 2496 configurations of OCSPCerts.tla (every sequence of 0..3 embedded certificates over {issuer's own, delegated, another issuer-signed certificate, attacker self-signed, "
                "attacker certified by another CA} x response signed by issuer/delegated/that other subject/attacker x issuer given/nil x {unmodified, tbs modified}; spliced into real DER, all four PKI flavours) "
                "and all 3528 configurations of OCSP.tla: 288 impersonation configurations (impostor signers {self-signed, delegated by another CA, wrong issuer} whose certificate copies the issuer's subject DN / key identifiers / serial / all of them, x issuer given/nil x self-signed/intermediate x cert argument x {none, tbs}; always in all four PKI flavours) and 3240 base configurations (9 signer configurations x {byName, byKey} x {good, revoked, unknown} x issuer {given, nil} x "
                "issuer {self-signed root, intermediate} x cert argument {nil, matching serial, other serial} x region {none, tbsResponseData, signature, "
                "embedded certificate, outer wrapper}); each is materialised in one (quick) / all four (thorough) PKI flavours (RSA-2048; ECDSA P-256; RSA issuer "
                "+ P-384 responder; P-521 issuer + RSA responder) with rotating template fields (10 revocation reasons, with/without NextUpdate, 0..2 extensions, "
                "5 issuer hashes, 5 signature algorithms, short/20-octet serials); a damaged region is hit at first/middle/last byte of header and content of every "
                "DER element in it (quick) or at every byte (thorough) with masks 01/80/ff; requests: 7 hashes x 7 serials x 3 issuers x 2 flavours; "
                "distinct = distinct (configuration, flavour, position, mask)")
    ctx.assumptions = [
        "RSA PKCS#1 v1.5 / ECDSA verification, crypto/x509 certificate creation and parsing, encoding/asn1 are trusted base; the abstract signature "
        "[by, over, intact] is materialised by real keys; 'authorized' is re-evaluated on the received bytes with crypto/x509 (first-principles oracle)",
        "CreateResponse takes ProducedAt from the clock (to the minute) and the responder id (byName) from the responder certificate, as documented; "
        "times are compared at one-second granularity (GeneralizedTime)",
        "templates use Status in {Good, Revoked, Unknown}, non-critical extensions (a critical singleExtension is refused by the parser by design), non-negative serials",
        "model decision 'any' (damaged outer wrapper; damaged embedded certificate or tbs with nothing to check them against) is not compared, only judged at the property level",
        "panic-freedom on mutated DER and random bytes is exploration (C45-style totality is not claimed)",
    ]
    import concurrent.futures
    with concurrent.futures.ThreadPoolExecutor(max_workers=2) as ex:
        f1 = ex.submit(ctx.tlc_must_hold, "OCSP_MC", cfg="OCSP_All.cfg", workers=4, coverage=ctx.thorough, timeout=900)
        f2 = ex.submit(ctx.tlc_must_hold, "OCSPCerts_MC", cfg="OCSPCerts_M3.cfg", workers=2, timeout=600)
        r, rm = f1.result(), f2.result()
    if ctx.thorough and r.coverage_zero:
        ctx.notes.append("OCSP actions never taken: %s" % r.coverage_zero)
    eku = ctx.tlc("OCSP_MC", cfg="OCSP_EKU.cfg", workers=1, expect_violation=True, count=False, timeout=600,
                  note="documentation: RFC 6960 4.2.2.2 OCSPSigning EKU on delegated certificates is not checked by the package")
    if eku.ok or eku.violated != "RFC6960Delegation":
        raise vlib.Infra("OCSP_EKU.cfg no longer yields the documented counterexample: %s" % eku.violated)
    ctx.extra["documented_difference_to_RFC6960"] = ("TLC refutes RFC6960Delegation on the model of the code: a delegated responder certificate without id-kp-OCSPSigning "
                                                     "is accepted (confirmed on the real code by the 'delegated-noeku' cases); C48 does not demand the EKU")
    if not r.traces:
        raise vlib.Infra("OCSP generator produced nothing")
    ctx.log("OCSP: %d configurations (%d accept, %d reject, %d unpredicted)" % (
        len(r.traces), sum(t["d"] == "accept" for t in r.traces), sum(t["d"] == "reject" for t in r.traces), sum(t["d"] == "any" for t in r.traces)))
    # the certificates field as a SEQUENCE of 0..3 certificates in any order (spec/OCSPCerts.tla): property quantified over all positions
    if not rm.traces:
        raise vlib.Infra("OCSPCerts generator produced nothing")
    ctx.log("OCSPCerts: %d configurations (%d with >= 2 certificates)" % (len(rm.traces), sum(len(t["certs"]) >= 2 for t in rm.traces)))
    cases = r.traces + rm.traces
    if ctx.replay:
        import json
        d = json.load(open(ctx.replay))["violation"]["detail"]
        if isinstance(d, dict) and isinstance(d.get("case"), dict):
            k = d["case"]
            cases = [t for t in cases if t.get("multi") == k.get("multi") and (t.get("certs"), t.get("sigKey")) == (k.get("certs"), k.get("sigKey")) and all(t.get(f) == k.get(f) for f in ("signer", "respId", "status", "issuerGiven", "issuerSelfSigned", "certArg", "region", "imp"))]
    res = ctx.go_test("c48", "TestC48$", cases=cases, timeout=ctx.pick(600, 1800),
                      env={"VERIF_C48_ALLFLAVOURS": ctx.pick(0, 1), "VERIF_C48_EXPLORE": ctx.pick(20000, 400000)})
    ctx.absorb(res)
    if not ctx.replay and not ctx.extra.get("c48_multi_cert_responses"):
        raise vlib.Infra("vacuity guard: no multi-certificate response was exercised")
    ctx.notes.append("exploration: %s mutated/random inputs to ParseResponse/ParseResponseForCert/ParseRequest, %s panics" % (
        ctx.extra.get("c48_explore_inputs"), ctx.extra.get("c48_explore_panics")))
    ctx.exhaustive = True
