"""C03 - ChaCha20 keystream is the RFC 8439 block function, seekable and split-invariant.

Specs: spec/StreamCipher.tla (abstract: byte position `pos`, XOR(n), SetCounter(c), panics),
spec/StreamCipherImpl.tla (transcription of counter/len/overflow/buf of chacha_generic.go),
spec/PrimChaCha.tla (executable RFC 8439 / XChaCha20 definitions; byte oracle).

TLC (a) model-checks the refinement StreamCipherImpl => StreamCipher under pos = 64*generated - len
and the abstract properties (monotone position, contiguous outputs, exact panic conditions, seek)
for bufSize 64 (this platform) and bufSize 256 (arm64/s390x/ppc64x); with the pre-fix condition the
bufSize-256 model must still yield the documented counter-wrap counterexample;
(b) evaluates keystream tables / HChaCha20 from the executable definitions;
(c) enumerates all call histories up to the depth bound with the model's predictions.
The Go harness replays every history on a real chacha20.Cipher (this platform's build and a build
with the 256-byte buffer) at Base = 0 and Base = 2^32 - L,
12- and 24-byte nonces, and compares outputs byte-for-byte and panics as events."""
import concurrent.futures, json, os, random
import vlib

NEAR = {"quick": ("StreamCipher_GenNear5.cfg", 4), "thorough": ("StreamCipher_GenNear6T.cfg", 6)}
FAR = {"quick": "StreamCipher_GenFar5.cfg", "thorough": "StreamCipher_GenFar6T.cfg"}


def _sim_cfg(L, nset, cset, depth):
    return ("SPECIFICATION GSpec\nCONSTANTS\n  L = %d\n  NSet = {%s}\n  CSet = {%s}\n  Depth = %d\n"
            "INVARIANTS Emit\nCHECK_DEADLOCK FALSE\n" % (L, ", ".join(map(str, sorted(nset))), ", ".join(map(str, sorted(cset))), depth))


def _judge_mc(ctx, res):
    for k, r in res.items():
        if k == "mc_b4old":
            continue
        if not r.ok:     # a counterexample in the design model alone is never a verdict
            raise vlib.Infra("design model %s: %s violated:\n%s" % (k, r.violated, (r.cex or r.raw[-3000:])[:6000]))
        ctx.states += r.distinct
        ctx.transitions += r.generated
        if r.coverage_zero:
            ctx.notes.append("actions never taken in %s: %s" % (k, r.coverage_zero))
    old = res.get("mc_b4old")
    if old is not None:
        if old.ok:
            raise vlib.Infra("StreamCipher_MC_B4Old (pre-fix condition `>`) no longer yields the documented counterexample: the bufSize-256 model lost its teeth")
        ctx.extra["documented_counterexample"] = ("pre-fix condition `counter+blocksPerBuf > 1<<32` with bufSize 256: TLC finds %s violated "
                                                  "(counter wraps to 0 without `overflow`; finding C03-F1, fixed in /repo 3982d60)" % old.violated)


VARIANT_EDITS = [("chacha20/chacha_noasm.go", "const bufSize = blockSize", "const bufSize = 4 * blockSize")]


def _variant_sigs(res):
    """Violations exhibited by the bufSize-256 variant build carry their own signatures."""
    for v in (res.get("violations") or []):
        if v.get("sig") == "c03-xor-missing-panic":
            v["sig"] = "c03-xor-missing-panic:bufsize256-counter-wrap"
        else:
            v["sig"] = "%s:bufsize256" % v.get("sig")
        v["what"] = "[chacha20 built with the 256-byte buffer of arm64/s390x/ppc64x] " + str(v.get("what"))
        if isinstance(v.get("detail"), dict):
            v["detail"]["build"] = "bufsize256"
    return res


def run(ctx):
    ctx.level = "model_checking"
    ctx.rule = ("cases = (call history, key/nonce variant, Base); histories = all maximal XORKeyStream/SetCounter sequences of "
                "length <= Depth over the model's length/counter alphabets (a history ends at the first panic), enumerated by TLC "
                "from StreamCipher.tla, plus (thorough) histories of depth <= 20 with lengths 0..5000 from TLC simulation (every successor the simulator generated); "
                "distinct = distinct (history, variant) per build; trivial cases are not counted separately")
    ctx.assumptions = [
        "2^32 is scaled to L blocks in the model; replay maps model block k to real counter 2^32-L+k (limit = real limit) or k (limit out of reach)",
        "keystream oracle = TLC evaluation of spec/PrimChaCha.tla (anchored by ASSUMEs of RFC 8439 2.1.1/2.3.2/2.4.2 and draft-xchacha 2.2.1 vectors); "
        "beyond the TLC-evaluated tables a Go transcription validated against those tables in the same run",
        "use of a Cipher after a recovered panic is outside the property: a history ends at the first panic",
        "every history is also replayed on a build of /repo's working tree in which chacha_noasm.go uses bufSize = 4*blockSize: the 256-byte-buffer "
        "bookkeeping of arm64/s390x/ppc64x exercised through the portable block function (their assembly itself is not executed)",
        "keys/nonces: patterned (TLC-evaluated) plus seeded random ones; not enumerated",
    ]
    tier = ctx.tier

    # ---- (a) exhaustive model checking (runs concurrently with the generators below)
    mc = {
        "mc_b1": dict(module="StreamCipher_MC", cfg="StreamCipher_MC_B1.cfg", coverage=ctx.thorough, workers=ctx.pick(2, 4),
                      note="refinement Impl(bufSize=64: amd64/portable) => StreamCipher + abstract properties"),
        "mc_b4": dict(module="StreamCipher_MC", cfg="StreamCipher_MC_B4.cfg", coverage=ctx.thorough, workers=ctx.pick(3, 6),
                      note="refinement Impl(bufSize=256: arm64/s390x/ppc64x bookkeeping) => StreamCipher + abstract properties"),
        # documentation: with the pre-fix condition (`>`) TLC must still find the counter-wrap counterexample
        "mc_b4old": dict(module="StreamCipher_MC", cfg="StreamCipher_MC_B4Old.cfg", expect_violation=True, workers=1,
                         note="bufSize=256 with the pre-fix condition: expected counterexample (documentation, non-vacuity)"),
    }
    if ctx.thorough:
        mc["mc_abs"] = dict(module="StreamCipher", cfg="StreamCipher_Abs.cfg", workers=4, note="abstract spec: properties")

    # ---- replay of a stored violation
    if ctx.replay:
        _judge_mc(ctx, {k: ctx.tlc(timeout=1500, count=False, **kw) for k, kw in mc.items()})
        d = json.load(open(ctx.replay))["violation"]["detail"]
        ks = ctx.tlc_must_hold("StreamCipher_KS", cfg="StreamCipher_KS%s.cfg" % ("Thorough" if ctx.thorough else "Quick"), workers=1, timeout=900, count=False)
        ksp = ctx.tmp("ks.ndjson")
        open(ksp, "w").write("".join(json.dumps(x) + "\n" for x in ks.traces))
        base = "top" if d.get("base") else "zero"
        L = (1 << 32) - int(d.get("base") or 0) if d.get("base") else 0
        env = {"VERIF_C03_KS": ksp, "VERIF_C03_BASE": base, "VERIF_C03_L": L, "VERIF_C03_RANDKEYS": 4}
        ctx.absorb(ctx.go_test("c03", "TestReplay", cases=[{"h": d["history"]}], env=env, timeout=600))
        ctx.absorb(_variant_sigs(ctx.go_test("c03", "TestReplay", cases=[{"h": d["history"]}], env=env, timeout=600,
                                             repo=ctx.repo_variant("chacha256", VARIANT_EDITS))))
        return

    # ---- (b) + (c): TLC evaluates tables and enumerates histories (three independent TLC runs, in parallel)
    near_cfg, nearL = NEAR[tier]
    jobs = {
        "ks": dict(module="StreamCipher_KS", cfg="StreamCipher_KS%s.cfg" % ("Thorough" if ctx.thorough else "Quick")),
        "near": dict(module="StreamCipher_Gen", cfg=near_cfg),
        "far": dict(module="StreamCipher_Gen", cfg=FAR[tier]),
    }
    if ctx.thorough:
        rnd = random.Random(ctx.seed * 7919 + 3)
        nset = {0, 1, 63, 64, 65, 127, 128, 129, 255, 256, 257, 4095, 4096, 5000} | {rnd.randrange(0, 5001) for _ in range(26)}
        jobs["simnear"] = dict(module="StreamCipher_Gen", cfg_text=_sim_cfg(300, nset, {0, 1, 2, 50, 150, 296, 298, 299} | {rnd.randrange(0, 300) for _ in range(5)}, 20),
                               simulate=1200, depth=21)
        jobs["simfar"] = dict(module="StreamCipher_Gen", cfg_text=_sim_cfg(100000000 // 64, nset, {0, 1, 2, 5, 17, 100, 1000} | {rnd.randrange(0, 1500) for _ in range(5)}, 20),
                              simulate=1200, depth=21)
    results = {}
    with concurrent.futures.ThreadPoolExecutor(max_workers=len(jobs) + len(mc)) as ex:
        futs = {k: ex.submit(ctx.tlc, workers=1, timeout=1500, count=False, **kw) for k, kw in jobs.items()}
        futs.update({k: ex.submit(ctx.tlc, timeout=1500, count=False, **kw) for k, kw in mc.items()})
        for k, f in futs.items():
            results[k] = f.result()
    _judge_mc(ctx, {k: results.pop(k) for k in mc})
    for k, r in results.items():
        if not r.ok:
            raise vlib.Infra("generator %s failed: %s" % (k, (r.cex or r.raw[-2000:])))
        if not r.traces:
            raise vlib.Infra("generator %s produced nothing" % k)
        if k.startswith("sim"):    # TLC's simulator evaluates the emitting invariant on every successor it generates: drop duplicates
            seen, uniq = set(), []
            for t in r.traces:
                key = json.dumps(t, separators=(",", ":"))
                if key not in seen:
                    seen.add(key)
                    uniq.append(t)
            r.traces = uniq
        ctx.log("%s: %d lines in %.0fs" % (k, len(r.traces), r.wall))
    ksp = ctx.tmp("ks.ndjson")
    open(ksp, "w").write("".join(json.dumps(x) + "\n" for x in results["ks"].traces))
    nrand = ctx.pick(1, 6)
    runs = [("near", "top", nearL), ("far", "zero", 0)]
    if ctx.thorough:
        runs += [("simnear", "top", 300), ("simfar", "zero", 0)]
    variant = ctx.repo_variant("chacha256", VARIANT_EDITS)
    for k, base, L in runs:
        for build, repo in (("bufsize64 (this platform)", None), ("bufsize256 variant", variant)):
            env = {"VERIF_C03_KS": ksp, "VERIF_C03_BASE": base, "VERIF_C03_L": L, "VERIF_C03_RANDKEYS": nrand if repo is None else nrand // 2}
            res = ctx.go_test("c03", "TestReplay", cases=results[k].traces, timeout=1200, env=env, repo=repo)
            if repo:
                _variant_sigs(res)
            ctx.log("replay %s base=%s L=%s on %s: %d evaluations, %d violations"
                    % (k, base, L, build, res.get("evaluations", 0), len(res.get("violations") or [])))
            ctx.absorb(res)
    ctx.exhaustive = True
    ctx.notes.append("exhaustive over the model's bounded alphabets and depth; key/nonce space sampled")
