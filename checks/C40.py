"""C40 -- SSH signatures verify exactly when valid.

Spec: spec/SSHSig.tla (+ _MC).  TLC enumerates (1) signer key type x algorithm x verifying key type x same/other key x
presented format (every algorithm name, certificate algorithm names, "", unknown) x mutation class x flag bytes
(signed and presented) x no-touch-required x plain/certificate wrapper and checks the code-shaped Verify procedure
against the property (VerifyIffValid, FormatTable, PresenceRule); (2) NewSignerWithAlgorithms (once or twice) and
Sign/SignWithAlgorithm (RefusesOutsideList, SignAlsoRefuses, NeverWidens); (3) the server's opt-out rule over all 256 flag bytes.
Binding R replays every generated case on real keys of every type, the package's signers, software security keys
and real client/server handshakes."""
import vlib
from c38_common import par_tlc, run_harness

M = "SSHSig_MC"


def run(ctx):
    ctx.level = "model_checking"
    ctx.rule = ("cases = TLC-enumerated tuples: part 1 (signer type, algorithm, verifying key type, same/other key, presented format, "
                "mutation class, signed flags, presented flags, no-touch, wrapper) materialised with real keys (2 per type; messages "
                "empty/short/1500 B) and verified through PublicKey.Verify, Certificate.Verify or CertChecker.CheckCert (security-key CA: "
                "the no-touch route); part 2 (key type, restriction list(s), call, algorithm) on the package's signers; part 3 (flags byte, "
                "opt-out placement in permissions / certificate) as real handshakes for both sk key types; distinct = distinct case")
    ctx.assumptions = [
        "a 'modified blob' is a blob denoting a different signature value (bit flips in either half, trailing/truncated/empty blob, changed flags/counter trailer); re-encodings of the same value (RSA signature without its leading zero bytes -- a documented interoperability leniency --, non-minimal mpint r in ECDSA blobs) and the algebraic twin (r, n-s) of an ECDSA signature are reported in the evidence (benign_variant_accepted:*) and not judged",
        "security keys are software P-256/Ed25519 keys wrapped as sk-* public keys via ParsePublicKey; their signatures follow PROTOCOL.u2f (sha256(application) || flags || counter || sha256(data))",
        "the no-touch-required clone of a key (skKeyWithoutUP) is reached through public API only: CheckCert with a security-key CA and the server's public key authentication",
        "trusted: Go standard library primitives, TLC",
    ]
    if ctx.thorough:
        jobs = [{"cfg": "SSHSig_T.cfg", "kw": {"workers": 10}}, {"cfg": "SSHSig_GenT.cfg", "gen": True}]
        gen = "SSHSig_GenT.cfg"
    else:
        jobs = [{"cfg": "SSHSig_Q.cfg", "kw": {"workers": 8}}, {"cfg": "SSHSig_GenQ.cfg", "gen": True}]
        gen = "SSHSig_GenQ.cfg"
    res = par_tlc(ctx, M, jobs)
    if ctx.thorough:
        # documentation of the repaired defect C40-M1 (FixSign = FALSE, code before bd7db8b): never replayed on the code
        r = ctx.tlc(M, cfg="SSHSig_DocSign.cfg", workers=4, timeout=900, expect_violation=True, count=False,
                    note="documentation (FixSign = FALSE): expected counterexample to SignAlsoRefuses")
        if r.violated != "SignAlsoRefuses":
            raise vlib.Infra("SSHSig_DocSign.cfg: TLC no longer finds the counterexample that documents the repaired defect C40-M1 (violated=%r)" % r.violated)
    cases = res[gen].traces
    if ctx.replay:
        rep = __import__("json").load(open(ctx.replay))
        d = (rep.get("violation") or {}).get("detail") or {}
        if isinstance(d, dict) and "case" in d:
            cases = [d["case"]]
    ctx.log("replaying %d cases on real keys, signers and handshakes" % len(cases))
    run_harness(ctx, "c40", "TestC40$", cases=cases)
    ctx.exhaustive = True
