"""C39 -- OpenSSH private keys round-trip with ssh-keygen and are internally consistent.

Spec: spec/OpenSSHKey.tla (+ _MC): the container and the accept decision of parseOpenSSHPrivateKey (checks in the order
of the code) over writer x key type x cipher x calling mode (no / right / wrong passphrase) x 36 corruption classes;
TLC checks PristineParses, WrongPassphrase, MissingPassphrase and that everything accepted is consistent
(AcceptOnlyConsistent; the parser before fix 189504f survives as OpenSSHKey_Doc.cfg, FixConsistency = FALSE, an expected counterexample).
Binding R builds every case from real files (MarshalPrivateKey(WithPassphrase), ssh-keygen), corrupts them with an
independent container codec (re-encrypting with the known passphrase) and parses them with the real parsers; accepted
keys are tested directly (sign/verify, public key equals the stored one); Go-written files go to ssh-keygen -y."""
import vlib
from c38_common import par_tlc, run_harness

M = "OpenSSHKey_MC"


def run(ctx):
    ctx.level = "model_checking"
    ctx.rule = ("cases = (writer in {package, ssh-keygen}) x key type (rsa 1024-3072, ecdsa 256/384/521, ed25519, dsa) x cipher (none, aes256-ctr, "
                "aes256-cbc) x mode (ParseRawPrivateKey, WithPassphrase right/wrong) x corruption class, enumerated by TLC; each applied to freshly "
                "written files (random comments and passphrases incl. non-ASCII and long ones; %d file instance(s) per kind); distinct = distinct "
                "(case, instance); plus every Go-written kind given to ssh-keygen -y") % (4 if ctx.thorough else 1)
    ctx.assumptions = [
        "hook VerifKeysBcryptPBKDF (ssh/verif_keys.go) exports the package's internal bcrypt_pbkdf so that the harness can decrypt and re-encrypt private sections; its agreement with OpenBSD's KDF is exercised by parsing ssh-keygen-encrypted files",
        "accepted keys are judged by direct test (signatures made with the returned key verify under its public key for every algorithm of the type; that public key equals the public key stored in the presented file), not by the model's classification",
        "classes that leave the key untouched (separate Ed25519 public field, RSA iqmp, p/q order, longer padding, trailing bytes) may be accepted or rejected",
        "ssh-keygen cipher choices other than the default aes256-ctr and aes256-cbc (-Z) are outside the check; sk-* private keys need hardware",
        "trusted: ssh-keygen 9.2, Go standard library, TLC",
    ]
    jobs = [{"cfg": "OpenSSHKey_MC.cfg", "kw": {"workers": 4}},
            {"cfg": "OpenSSHKey_GenT.cfg" if ctx.thorough else "OpenSSHKey_GenQ.cfg", "gen": True}]
    res = par_tlc(ctx, M, jobs)
    if ctx.thorough:
        # documentation of the repaired defects C39-K1..K4 (FixConsistency = FALSE, code before 189504f): never replayed on the code
        r = ctx.tlc(M, cfg="OpenSSHKey_Doc.cfg", workers=2, timeout=600, expect_violation=True, count=False,
                    note="documentation (FixConsistency = FALSE): expected counterexample to AcceptOnlyConsistent")
        if r.violated != "AcceptOnlyConsistent":
            raise vlib.Infra("OpenSSHKey_Doc.cfg: TLC no longer finds the counterexample that documents the repaired defects C39-K1..K4 (violated=%r)" % r.violated)
    cases = res[jobs[1]["cfg"]].traces
    if ctx.replay:
        rep = __import__("json").load(open(ctx.replay))
        d = (rep.get("violation") or {}).get("detail") or {}
        if isinstance(d, dict) and isinstance(d.get("case"), dict) and "f" in d["case"]:
            cases = [d["case"]]
    if not ctx.have("ssh-keygen"):
        ctx.skipped.append("ssh-keygen not installed: ssh-keygen-written files and ssh-keygen -y acceptance not checked")
        cases = [c for c in cases if c["f"]["src"] != "keygen"]
    ctx.log("replaying %d cases on real key files" % len(cases))
    run_harness(ctx, "c39", "TestC39$", cases=cases)
    ctx.extra.pop("skipped", None)
    ctx.exhaustive = True
