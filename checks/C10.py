"""C10 - NaCl secretbox / box / sign / auth interoperate with libsodium.

Specs: spec/SecretBox.tla (crypto_secretbox_xsalsa20poly1305 in the "easy" format tag || ciphertext
and crypto_box on top of it, composed from the executable definitions PrimSalsa + PrimPoly; ASSUMEs of
the "Cryptography in NaCl" section 10 example and the NaCl-generated vector of the repository's test;
X25519 / BLAKE2b / Ed25519 / HMAC-SHA-512 are trusted parameters), spec/SecretBox_Gen.tla (TLC
evaluates Seal for message lengths around the 32-byte first-block boundary and the 64-byte block
boundaries, box keys HSalsa20(shared, 0^16) incl. the low-order case shared = 0^32, and checks
Open(Seal(x)) = x, rejection of tampered/truncated boxes and "first-block split = stream from byte
32" on every case).

Binding: (E+R) the real secretbox.Seal/Open, box.SealAfterPrecomputation/OpenAfterPrecomputation are
compared byte-for-byte with the TLC-evaluated outputs; box.Precompute/Seal/Open with
HSalsa20(crypto/ecdh X25519, 0^16) incl. all low-order peer keys; Precompute symmetry; a Go
transcription validated against the TLC vectors sweeps every length 0..2000; on the assembly and on
the purego build.  (interop) libsodium, reached through checks/c10_sodium_helper.py, is the
independent implementation the property names: Go seals -> libsodium must produce the same bytes and
open them; libsodium seals -> Go opens; SealAnonymous <-> crypto_box_seal_open / crypto_box_seal;
sign.Sign = crypto_sign; auth.Sum = crypto_auth; Precompute = crypto_box_beforenm.  If libsodium is
not reachable those sub-checks are skipped and recorded (never a verdict)."""
import hashlib, json, os, random
import vlib
import c10_common


def _cmp(ctx, viol, sig, what, rec, got, want):
    if got != want:
        if len(viol) < 40:
            viol.append((sig, what, {"kind": rec["kind"], "id": rec["id"], "len": len(rec.get("m", "")) // 2, "libsodium": (got or "")[:200],
                                      "go": (want or "")[:200], "record": rec}))
        return False
    return True


def _interop(ctx, recs):
    """Go-produced values against libsodium; returns (violations, records for Go to consume)."""
    py, info = c10_common.sodium_probe()
    consume = []
    viol = []
    # sealed-box nonce derivation against hashlib (always available): the Go side re-derives the sealed box from the definition
    for r in recs:
        if r["kind"] == "anon":
            epk = bytes.fromhex(r["c"])[:32]
            nonce = hashlib.blake2b(epk + bytes.fromhex(r["pkB"]), digest_size=24).digest()
            consume.append({"id": r["id"], "kind": "anon-def", "c": r["c"], "esk": r["esk"], "pkB": r["pkB"], "m": r.get("m", ""), "nonce": nonce.hex()})
    if py is None:
        ctx.skipped.append("libsodium not reachable (neither PyNaCl nor a system libsodium through ctypes): all libsodium interoperability "
                           "sub-checks skipped; only the definition (TLC) and hashlib-based comparisons ran")
        return viol, consume
    reqs, plan = [], []

    def ask(req, handler):
        reqs.append(req)
        plan.append(handler)

    stats = {"go_to_libsodium": 0, "low_order_refused_by_libsodium": 0, "low_order_accepted_by_libsodium": 0}
    for r in recs:
        k = r["kind"]
        if k == "secretbox":
            ask({"op": "secretbox_easy", "m": r["m"], "n": r["n"], "k": r["k"]},
                lambda a, r=r: _cmp(ctx, viol, "c10-secretbox-seal-differs-from-libsodium", "secretbox.Seal output differs from crypto_secretbox_easy", r, a.get("c"), r["c"]))
            ask({"op": "secretbox_open_easy", "c": r["c"], "n": r["n"], "k": r["k"]},
                lambda a, r=r: _cmp(ctx, viol, "c10-libsodium-rejects-go-secretbox", "crypto_secretbox_open_easy does not open secretbox.Seal's output", r,
                                    a.get("m") if a.get("ok") else None, r["m"]))
        elif k == "box":
            ask({"op": "box_easy", "m": r["m"], "n": r["n"], "pk": r["pkB"], "sk": r["skA"]},
                lambda a, r=r: _cmp(ctx, viol, "c10-box-seal-differs-from-libsodium", "box.Seal output differs from crypto_box_easy", r, a.get("c"), r["c"]))
            ask({"op": "box_open_easy", "c": r["c"], "n": r["n"], "pk": r["pkA"], "sk": r["skB"]},
                lambda a, r=r: _cmp(ctx, viol, "c10-libsodium-rejects-go-box", "crypto_box_open_easy (receiver side) does not open box.Seal's output", r,
                                    a.get("m") if a.get("ok") else None, r["m"]))
            ask({"op": "box_beforenm", "pk": r["pkB"], "sk": r["skA"]},
                lambda a, r=r: _cmp(ctx, viol, "c10-precompute-differs-from-libsodium", "box.Precompute differs from crypto_box_beforenm", r, a.get("k"), r["k"]))
            ask({"op": "box_easy_afternm", "m": r["m"], "n": r["n"], "k": r["k"]},
                lambda a, r=r: _cmp(ctx, viol, "c10-box-afternm-differs-from-libsodium", "box.SealAfterPrecomputation differs from crypto_box_easy_afternm", r, a.get("c"), r["cpre"]))
        elif k == "anon":
            ask({"op": "box_seal_open", "c": r["c"], "pk": r["pkB"], "sk": r["skB"]},
                lambda a, r=r: _cmp(ctx, viol, "c10-libsodium-rejects-go-sealed-box", "crypto_box_seal_open does not open box.SealAnonymous's output", r,
                                    a.get("m") if a.get("ok") else None, r["m"]))
        elif k == "sign":
            ask({"op": "sign_seed_keypair", "seed": r["seed"]},
                lambda a, r=r: _cmp(ctx, viol, "c10-sign-keypair-differs-from-libsodium", "sign.GenerateKey's key pair differs from crypto_sign_seed_keypair of the same seed", r,
                                    (a.get("pk"), a.get("sk")), (r["pkA"], r["sk64"])))
            ask({"op": "sign", "m": r["m"], "sk": r["sk64"]},
                lambda a, r=r: _cmp(ctx, viol, "c10-sign-differs-from-libsodium", "sign.Sign output differs from crypto_sign", r, a.get("sm"), r["sm"]))
            ask({"op": "sign_open", "sm": r["sm"], "pk": r["pkA"]},
                lambda a, r=r: _cmp(ctx, viol, "c10-libsodium-rejects-go-signature", "crypto_sign_open does not accept sign.Sign's output", r,
                                    a.get("m") if a.get("ok") else None, r["m"]))
        elif k == "auth":
            ask({"op": "auth", "m": r["m"], "k": r["k"]},
                lambda a, r=r: _cmp(ctx, viol, "c10-auth-differs-from-libsodium", "auth.Sum differs from crypto_auth", r, a.get("a"), r["a"]))
            ask({"op": "auth_verify", "a": r["a"], "m": r["m"], "k": r["k"]},
                lambda a, r=r: _cmp(ctx, viol, "c10-libsodium-rejects-go-auth", "crypto_auth_verify does not accept auth.Sum's output", r, bool(a.get("ok")), True))
        elif k == "lowbox":
            def low(a, r=r):
                if a.get("ok"):     # a libsodium that does not refuse low-order keys must then agree on the key
                    stats["low_order_accepted_by_libsodium"] += 1
                    return _cmp(ctx, viol, "c10-precompute-differs-from-libsodium", "box.Precompute differs from crypto_box_beforenm (low-order peer key)", r, a.get("k"), r["k"])
                stats["low_order_refused_by_libsodium"] += 1
                return True
            ask({"op": "box_beforenm", "pk": r["pkB"], "sk": r["skA"]}, low)
    # values produced by libsodium for the Go code to open (fresh inputs; key pairs reused from the Go records)
    rnd = random.Random(ctx.seed * 104729 + 17)
    boxes = [r for r in recs if r["kind"] == "box"]
    signs = [r for r in recs if r["kind"] == "sign"]
    for i, b in enumerate(boxes):
        n = len(b["m"]) // 2
        m = bytes(rnd.getrandbits(8) for _ in range(n)).hex()
        nn = bytes(rnd.getrandbits(8) for _ in range(24)).hex()
        kk = bytes(rnd.getrandbits(8) for _ in range(32)).hex()
        base = 1000000 + 10 * i
        ask({"op": "secretbox_easy", "m": m, "n": nn, "k": kk},
            lambda a, m=m, nn=nn, kk=kk, base=base: consume.append({"id": base, "kind": "secretbox", "k": kk, "n": nn, "m": m, "c": a["c"]}) or True)
        ask({"op": "box_easy", "m": m, "n": nn, "pk": b["pkB"], "sk": b["skA"]},
            lambda a, m=m, nn=nn, b=b, base=base: consume.append({"id": base + 1, "kind": "box", "pkA": b["pkA"], "skB": b["skB"], "n": nn, "m": m, "c": a["c"], "k": b["k"]}) or True)
        ask({"op": "box_seal", "m": m, "pk": b["pkB"]},
            lambda a, m=m, b=b, base=base: consume.append({"id": base + 2, "kind": "anon", "pkB": b["pkB"], "skB": b["skB"], "m": m, "c": a["c"]}) or True)
        s = signs[i % len(signs)]
        ask({"op": "sign", "m": m, "sk": s["sk64"]},
            lambda a, m=m, s=s, base=base: consume.append({"id": base + 3, "kind": "sign", "pkA": s["pkA"], "m": m, "sm": a["sm"]}) or True)
        ask({"op": "auth", "m": m, "k": kk},
            lambda a, m=m, kk=kk, base=base: consume.append({"id": base + 4, "kind": "auth", "k": kk, "m": m, "a": a["a"]}) or True)
    ans = c10_common.sodium(reqs, timeout=900)
    for a, h, q in zip(ans, plan, reqs):
        if "error" in a:
            raise vlib.Infra("libsodium helper error on %s: %s" % (q.get("op"), a["error"]))
        if q["op"] in ("secretbox_easy", "box_easy", "box_seal", "sign", "auth", "box_easy_afternm", "sign_seed_keypair") and not a.get("ok"):
            # these cannot legitimately fail for the (non-low-order) inputs used here: a helper problem, not a statement about /repo
            raise vlib.Infra("libsodium %s failed unexpectedly" % q["op"])
        h(a)
        stats["go_to_libsodium"] += 1
    ctx.extra["libsodium"] = {"version": info.get("version"), "how": info.get("how"), "requests": len(reqs), **stats}
    if stats["low_order_refused_by_libsodium"]:
        ctx.notes.append("low-order peer keys: libsodium %s refuses them (crypto_box_beforenm = -1) for %d of %d points, whereas box.Precompute (no error result) "
                         "follows original NaCl and yields HSalsa20(0^32, 0^16); 'equals crypto_box' is only defined where crypto_box produces an output, "
                         "so these cases are compared with the definition (TLC-evaluated LowOrderBoxKey) and recorded here, not judged"
                         % (info.get("version"), stats["low_order_refused_by_libsodium"],
                            stats["low_order_refused_by_libsodium"] + stats["low_order_accepted_by_libsodium"]))
    return viol, consume


def run(ctx):
    ctx.level = "model_checking"
    ctx.rule = ("cases = (API, key material, nonce, message, dst arrangement, build); TLC-evaluated: secretbox/box outputs for message lengths around the 32-byte "
                "first-block boundary and the 64-byte block boundaries (quick 18 lengths of 0..100, thorough every length 0..100 and 127..300) with patterned inputs, "
                "box keys incl. the low-order case; amplifier: every message length 0..2000 with random keys (Go transcription validated against the TLC vectors), "
                "all 7 low-order peer key encodings, random key pairs (Precompute symmetry); interop: message lengths 0..70, 95..97, 127..129, .., 1999, 2000 "
                "(thorough: 0..400) plus random lengths up to 2000 through secretbox, box, sealed box, sign and auth in both directions against libsodium; "
                "distinct = distinct (API/direction, length or case id)")
    ctx.assumptions = [
        "definition = spec/SecretBox.tla over PrimSalsa/PrimPoly evaluated by TLC, anchored by the 'Cryptography in NaCl' examples and the NaCl-generated vector of secretbox_test.go",
        "trusted primitives (parameters of the specification): X25519 = crypto/ecdh, Ed25519 = crypto/ed25519, HMAC-SHA-512 = crypto/hmac+crypto/sha512, BLAKE2b = hashlib.blake2b",
        "independent implementation: libsodium through ctypes (PyNaCl's bundled copy if installed, else the system shared library); its absence skips the interop sub-checks",
        "keys/nonces/messages: patterned (TLC-evaluated) plus seeded random ones; message lengths enumerated within the stated bounds",
    ]
    T = "T" if ctx.thorough else "Q"
    r = ctx.tlc("SecretBox_Gen", cfg="SecretBox_Gen%s.cfg" % T, workers=ctx.pick(8, 12), timeout=1800,
                note="TLC evaluates secretbox/box Seal; Open(Seal(x)) = x, tamper/truncation rejected, first-block split = stream from byte 32")
    if not r.ok:      # a counterexample in the design model alone is never a verdict
        raise vlib.Infra("design model SecretBox_Gen: %s violated:\n%s" % (r.violated, (r.cex or r.raw[-3000:])[:6000]))
    ctx.log("SecretBox_Gen: %d TRACE lines, %.0fs" % (len(r.traces), r.wall))
    if len(r.traces) < 20:
        raise vlib.Infra("SecretBox_Gen produced too few vectors (%d)" % len(r.traces))
    f = ctx.tmp("c10_go_values.json")
    for path, tg in (("asm", "verif"), ("purego", "verif,purego")):
        # the assembly build also writes what the Go code produces, for the interoperability step below
        res = ctx.go_test("c10", "TestDefinition", cases=r.traces, tags=tg, timeout=1500, env={"VERIF_C10_FILE": f} if path == "asm" else None)
        for v in (res.get("violations") or []):
            if isinstance(v.get("detail"), dict):
                v["detail"]["build"] = path
        ctx.log("definition %s: %d evaluations, %d violations" % (path, res.get("evaluations", 0), len(res.get("violations") or [])))
        ctx.absorb(res)

    # ---- interoperability with libsodium, both directions
    if not os.path.exists(f):
        if ctx.violations:
            ctx.notes.append("the Go code already contradicts the definition: interoperability step not run")
            return
        raise vlib.Infra("harness did not write the values for the interoperability step")
    recs = json.load(open(f))
    viol, consume = _interop(ctx, recs)
    for sig, what, detail in viol:
        ctx.violation(sig, what, detail)
    if viol:
        ctx.log("libsodium comparison: %d disagreements" % len(viol))
    ctx.evaluations += ctx.extra.get("libsodium", {}).get("go_to_libsodium", 0)
    ctx.traces_validated += ctx.extra.get("libsodium", {}).get("go_to_libsodium", 0)
    res = ctx.go_test("c10", "TestInteropConsume", cases=consume, timeout=600)
    ctx.log("consume: %d values opened/verified by the Go code, %d violations" % (res.get("evaluations", 0), len(res.get("violations") or [])))
    ctx.absorb(res)
    ctx.exhaustive = False
    ctx.notes.append("message lengths exhaustive within the stated bounds; keys, nonces and contents sampled")
