"""C13 - XTS mode matches IEEE 1619 and inverts.

Specs: spec/XTS.tla (XTS over an abstract 16-byte block cipher: T0 = E_k2(LE128(sector)),
T(j+1) = alpha*T(j), C_j = E_k1(P_j xor T_j) xor T_j; declarative definition plus a register/in-place
form shaped like xts.go), spec/PrimGF128.tla (multiplication by alpha in GF(2^128), IEEE 1619
little-endian convention: polynomial definition and the byte carry chain), spec/PrimToy.tla (toy block
cipher that TLC evaluates exactly), spec/XTS_MC.tla (cases, model-level laws, emission),
spec/PrimGF128_MC.tla (the two doubling definitions agree on a basis + additivity).

Binding E+R: TLC evaluates exact ciphertexts with the toy cipher for sectors {0, 1, 2^32, 2^63, 2^64-1}
(+2 more in thorough), lengths 16..512 and tweak classes chosen through the toy key (a carry out of the top
bit at every block 0..31, none, alternating, ...); the harness runs the REAL xts.Cipher with the toy cipher
as cipherFunc and compares Encrypt/Decrypt (separate, aliased and longer destination buffers) byte for
byte.  With real AES: IEEE 1619 Annex B vectors, vectors computed by OpenSSL's EVP XTS through ctypes
(optional), and an independent composition crypto/aes + Go transcription of the TLA+ definitions
(validated against the TLC cases in the same run) for lengths 16..4096."""
import concurrent.futures, ctypes, ctypes.util, json, random
import vlib


def _openssl_vectors(ctx, n):
    """Vectors from OpenSSL's EVP_aes_{128,256}_xts (an independent implementation); [] if unavailable."""
    try:
        name = ctypes.util.find_library("crypto")
        lib = ctypes.CDLL(name)
        lib.EVP_CIPHER_CTX_new.restype = ctypes.c_void_p
        lib.EVP_aes_128_xts.restype = ctypes.c_void_p
        lib.EVP_aes_256_xts.restype = ctypes.c_void_p
        lib.EVP_CIPHER_CTX_free.argtypes = [ctypes.c_void_p]
        lib.EVP_CipherInit_ex.argtypes = [ctypes.c_void_p, ctypes.c_void_p, ctypes.c_void_p, ctypes.c_char_p, ctypes.c_char_p, ctypes.c_int]
        lib.EVP_CipherUpdate.argtypes = [ctypes.c_void_p, ctypes.c_char_p, ctypes.POINTER(ctypes.c_int), ctypes.c_char_p, ctypes.c_int]

        def xts(key, iv, data):
            c = lib.EVP_CIPHER_CTX_new()
            ciph = lib.EVP_aes_128_xts() if len(key) == 32 else lib.EVP_aes_256_xts()
            try:
                if lib.EVP_CipherInit_ex(c, ciph, None, key, iv, 1) != 1:
                    return None
                out = ctypes.create_string_buffer(len(data) + 32)
                m = ctypes.c_int(0)
                if lib.EVP_CipherUpdate(c, out, ctypes.byref(m), data, len(data)) != 1 or m.value != len(data):
                    return None
                return out.raw[:m.value]
            finally:
                lib.EVP_CIPHER_CTX_free(c)
        # self-test: IEEE 1619 vector 2
        got = xts(bytes([0x11] * 16 + [0x22] * 16), (0x3333333333).to_bytes(16, "little"), bytes([0x44] * 32))
        if got is None or got.hex() != "c454185e6a16936e39334038acef838bfb186fff7480adc4289382ecd6d394f0":
            return []
        rng = random.Random(1000 + ctx.seed)
        secs = [0, 1, 1 << 32, 1 << 63, (1 << 64) - 1, (1 << 64) - 2, (1 << 56) + 5]
        res = []
        for i in range(n):
            kl = 32 if i % 2 == 0 else 64
            key = bytes(rng.getrandbits(8) for _ in range(kl))
            sector = secs[i % len(secs)] if i % 3 else rng.getrandbits(64)
            ln = 16 * (rng.choice([1, 2, 3, 32, 33, 64, 128, 255, 256]) if i % 2 else rng.randint(1, 256))
            pt = bytes(rng.getrandbits(8) for _ in range(ln))
            ct = xts(key, sector.to_bytes(16, "little"), pt)
            if ct is None:
                continue
            res.append({"t": "ossl", "key": key.hex(), "sector": str(sector), "pthex": pt.hex(), "cthex": ct.hex()})
        return res
    except Exception as e:      # optional amplifier: never a verdict, never an infra failure
        ctx.log("OpenSSL XTS vectors unavailable: %r" % (e,))
        return []


def run(ctx):
    ctx.level = "model_checking"
    ctx.rule = ("cases = (cipher, key pair, sector, plaintext) with expected ciphertext: (a) toy cipher: TLC-evaluated from XTS.tla for "
                "(sector in {0,1,2^32,2^63,2^64-1[,2^56+5,pattern]}) x (tweak class forced through the toy key: carry at every block, all-ones, "
                "zero, single top bit, alternating, low bytes, ordinary) x (1..32 blocks); (b) AES: IEEE 1619 Annex B vectors, OpenSSL-computed "
                "vectors, and crypto/aes composed with the validated Go transcription for AES-128/192/256, boundary and random sectors, lengths "
                "16..4096; every case: Encrypt separate/in place/longer destination, Decrypt separate/in place, a second Cipher object; "
                "distinct = distinct (source, key, sector, length)")
    ctx.assumptions = [
        "definition = spec/XTS.tla + spec/PrimGF128.tla evaluated by TLC; GF(2^128) doubling anchored by x^128 = x^7+x^2+x+1 and checked in two forms",
        "AES itself is the Go standard library (trusted base); the construction logic is what is compared",
        "keys/plaintexts sampled (patterned for TLC cases, seeded random for AES cases); sectors: the property's boundary values plus random",
        "the Go transcription toyprim.XTS/Mul2 used for lengths > 512 is validated against every TLC case and the IEEE vectors in the same run",
    ]
    T = "T" if ctx.thorough else "Q"
    jobs = {
        "gf": dict(module="PrimGF128_MC", cfg="PrimGF128_MC.cfg", workers=4, note="GFMul2 (polynomial) = GFMul2Carry (byte carry chain) on a basis, additivity"),
        "xts": dict(module="XTS_MC", cfg="XTS_MC_%s.cfg" % T, workers=ctx.pick(6, 12),
                    note="per case: Dec(Enc(P))=P, register/in-place form = definition, carry chain = polynomial doubling, tweak class non-vacuous; emits ciphertexts"),
    }
    res = {}
    with concurrent.futures.ThreadPoolExecutor(max_workers=len(jobs)) as ex:
        futs = {k: ex.submit(ctx.tlc, timeout=ctx.pick(600, 2400), **kw) for k, kw in jobs.items()}
        for k, f in futs.items():
            res[k] = f.result()
    for k, r in res.items():
        if not r.ok:      # a counterexample in the design model alone is never a verdict
            raise vlib.Infra("design model %s: %s violated:\n%s" % (k, r.violated, (r.cex or r.raw[-3000:])[:6000]))
        ctx.log("%s: %d distinct states, %d TRACE lines, %.0fs" % (k, r.distinct, len(r.traces), r.wall))
    cases = res["xts"].traces
    nx = len([c for c in cases if c.get("t") == "xts"])
    if nx < 50 or not any(c.get("t") == "toyvec" for c in cases):
        raise vlib.Infra("XTS generator produced too little (%d cases)" % nx)
    if ctx.replay:
        d = json.load(open(ctx.replay))["violation"]["detail"] or {}
        lab = d.get("case", "")
        keep = [c for c in cases if c.get("t") == "toyvec" or
                (c.get("t") == "xts" and ("toy sec=%s tw=%s nb=%d" % (c["sec"], c["tw"], c["nb"]) == lab or not lab.startswith("toy")))]
        cases = keep
    ossl = _openssl_vectors(ctx, ctx.pick(40, 400))
    if not ossl:
        ctx.skipped.append("OpenSSL libcrypto XTS not usable through ctypes: OpenSSL-derived vectors skipped")
    r = ctx.go_test("c13", "TestReplay", cases=cases + ossl, timeout=ctx.pick(300, 900))
    ctx.log("replay: %d evaluations, %d violations" % (r.get("evaluations", 0), len(r.get("violations") or [])))
    ctx.absorb(r)
    ctx.exhaustive = False
    ctx.notes.append("TLC cases exhaustive over the stated (sector, tweak class, block count) product; key/plaintext space sampled")
