"""X02 (growth) -- ACME order / authorization / challenge life cycle of golang.org/x/crypto/acme.

Spec: spec/AcmeOrder.tla.  Server side (environment): one order (pending -> ready -> processing ->
valid | invalid), one authorization (pending -> valid | invalid | deactivated | expired | revoked),
one challenge (pending -> processing -> valid | invalid), an account; they evolve by RFC 8555
transitions (optionally regressions / unknown status) and by the effect of client requests; every
request is answered in a reply shape of the server's choosing (ok, wrong content type, missing
Location, missing certificate URL, garbage body, 4xx, 5xx, transport error, slow + cancel) with a
Retry-After value.  Client side: the twelve public operations AuthorizeOrder, GetOrder, WaitOrder,
CreateOrderCert, FetchCert, ListCertAlternates, GetAuthorization, WaitAuthorization, GetChallenge,
Accept, RevokeAuthorization, DeactivateReg as request / reply / timer / back-off / cancel actions.

 (1) TLC model-checks P1..P9 (no false success, typed failures, finalize once, poll spacing, stop on
     cancel, certificate only after "valid", result = last reply, chain limits, poll exactly while
     not final) exhaustively on bounded instances; a liveness instance; four deliberately wrong
     clients and the "Retry-After in the past" instance must produce their counterexamples.
 (2) binding R: AcmeOrder_Gen emits complete behaviours (server evolution x reply shapes x calls);
     harness/x02 TestReplay plays each on a stateful fake CA against the REAL acme.Client (public
     API, testing/synctest virtual time) and compares request sequence, sleep before every request,
     result class / status / originating reply / chain length.
 (3) binding T: seeded random server evolutions under sessions of random calls; the recorded logs
     are validated by AcmeOrder_Trace (conforming-server sessions also against the RFC-only
     environment, so the Go fake CA is checked against the model's state machine too).
 (4) every form of Retry-After (absent, seconds, HTTP date in the future / past, negative).
 (5) spec/AcmeOrderFlow.tla: autocert's issuance flow (Manager.verifyRFC + CreateOrderCert): orders with 1-2
     authorizations offering sets of challenge types, CA refusals / validation failures / order failures;
     F1..F6 model-checked; every behaviour replayed through Manager.GetCertificate (+HTTPHandler) against a
     functional CA that probes the Manager for the challenge response when a challenge is accepted.
"""
import concurrent.futures as cf
import json, os, random
import vlib

INV = ("TypeOK P1_NoFalseSuccess P2_TypedFailures P3_FinalizeOnce P4_PollSpacing P5_StopOnCancel P6_CertAfterValid "
       "P7_LastObserved P8_ChainLimits P9_PollExactlyWhileNotFinal ServerSane")

# documented model-level counterexamples: cfg -> invariant that must be violated
EXPECT = {"NegRA": "P4_PollSpacing", "Mut_processingDone": "P1_NoFalseSuccess", "Mut_invalidOk": "P1_NoFalseSuccess",
          "Mut_noTimer": "P4_PollSpacing", "Mut_certEarly": "P6_CertAfterValid"}


def _module(cfg):
    if cfg.startswith("Flow"):
        return "AcmeOrderFlow_Gen" if "Gen" in cfg else "AcmeOrderFlow_MC"
    return "AcmeOrder_Gen" if cfg.startswith("Gen") else "AcmeOrder_MC"


def _cfgfile(cfg):
    return ("AcmeOrderFlow_%s.cfg" % cfg[4:]) if cfg.startswith("Flow") else ("AcmeOrder_%s.cfg" % cfg)


def _isgen(cfg):
    return "Gen" in cfg


def _par_tlc(ctx, cfgs, workers):
    """run several TLC instances concurrently (a JVM start costs 5-30 s on the loaded box)"""
    def one(c):
        kw = dict(cfg=_cfgfile(c), count=False, timeout=1700, workers=workers.get(c, 4))
        if c in EXPECT:
            kw["expect_violation"] = True
        return ctx.tlc(_module(c), **kw)
    res, errs = {}, []
    with cf.ThreadPoolExecutor(max_workers=8) as ex:
        futs = {c: ex.submit(one, c) for c in cfgs}
        for c in cfgs:
            try:
                res[c] = futs[c].result()
            except vlib.Infra as e:
                errs.append(str(e))
    if errs:
        raise vlib.Infra("; ".join(errs)[:6000])
    for c in cfgs:
        r = res[c]
        if c in EXPECT:
            if r.violated != EXPECT[c]:
                raise vlib.Infra("AcmeOrder/%s: expected the documented counterexample to %s, TLC says violated=%r" % (c, EXPECT[c], r.violated))
        elif not r.ok:
            raise vlib.Infra("design model AcmeOrder/%s: %s violated (model-level counterexample, not reproduced on code):\n%s"
                             % (c, r.violated or "postcondition", (r.cex or r.raw[-3000:])[:6000]))
        if not _isgen(c) or c in ("GenQ", "FlowGen1", "FlowGenQ"):
            ctx.states += r.distinct
            ctx.transitions += r.generated
        ctx.log("TLC %-18s %9d generated %9d distinct %6.1fs%s%s" % (c, r.generated, r.distinct, r.wall,
                "  (documented counterexample: %s)" % r.violated if c in EXPECT else "",
                "  %d behaviours" % len(r.traces) if _isgen(c) else ""))
        r.raw = ""
    return res


def _load_traces(path):
    tr = []
    with open(path) as fh:
        for line in fh:
            line = line.strip()
            if line:
                tr.append(json.loads(line))
    return tr


def _sample(ctx, traces, max_events, salt):
    rnd = random.Random(ctx.seed * 7919 + salt)
    idx = list(range(len(traces)))
    rnd.shuffle(idx)
    chosen, n = [], 0
    for i in idx:
        if n + len(traces[i]) > max_events and chosen:
            break
        chosen.append(traces[i]); n += len(traces[i])
    return chosen


def _unknown_violations(ctx):
    """violations that are not listed as open known findings (those do not settle the verdict early)"""
    try:
        known = {k["signature"] for k in json.load(open(os.path.join(vlib.VERIF, "known_findings.json")))
                 if k.get("property") == ctx.pid and k.get("status") == "open"}
    except Exception:
        known = set()
    return [v for v in ctx.violations if v.get("sig") not in known]


def run(ctx):
    ctx.level = "model_checking"
    ctx.rule = ("replay cases = complete behaviours of AcmeOrder enumerated by TLC (initial order/authorization/challenge statuses x "
                "environment steps x reply shapes x Retry-After x certificate bodies x public operation [x bundle]), each played by the "
                "stateful fake CA against the real acme.Client; distinct = distinct (initial state, operation(s), per-request script of "
                "environment steps, shape, server choice, Retry-After, cancel point); random sessions = seeded, one recorded trace each, "
                "validated by AcmeOrder_Trace")
    ctx.assumptions = [
        "one order / one authorization / one challenge / one account; one sequential caller (concurrent callers share only the nonce pool: C50)",
        "virtual time (testing/synctest): Retry-After, the 1 s default, the scripted 2 s RetryBackoff and cancellation 0.5 s into a sleep are exact",
        "a request whose context is already cancelled, or whose URL is empty, is refused by the transport (net/http.Transport behaviour, emulated by the fake RoundTripper)",
        "Client.KID is pre-set (no hidden account lookup); RetryBackoff is scripted with a budget of 1 (2 in one model instance); nonce handling is C50's subject",
        "DER bytes are opaque markers (the client does not parse certificates); the PEM framing, sizes and counts are real",
        "WaitAuthorization polls deactivated/expired/revoked authorizations until the context ends, as its documentation says (final = valid | invalid); modelled as is",
    ]
    budget = 1
    if ctx.replay:
        rep = json.load(open(ctx.replay))
        v = rep.get("violation") or {}
        d = v.get("detail") or {}
        if isinstance(d, dict) and d.get("case"):
            if str(v.get("sig", "")).startswith("x02f-"):
                res = ctx.go_test("x02", "TestFlow", cases=[d["case"]], timeout=300)
            else:
                res = ctx.go_test("x02", "TestReplay", cases=[d["case"]], env={"X02_BUDGET": d.get("budget", budget)}, timeout=300)
            ctx.absorb(res)
            return
        if str(v.get("sig", "")).startswith("x02-poll-") and isinstance(d, dict) and d.get("retry_after"):
            ctx.absorb(ctx.go_test("x02", "TestRetryAfterForms", timeout=300))
            return
        ctx.notes.append("replay file carries no single case; running the whole tier")

    # ---- phase 1, concurrently: (1) model checking + generation (TLC)  ||  harness runs that need no TLC output
    if ctx.thorough:
        cfgs = ["MCq", "MCmal", "MCdeep", "MCall", "MCsess", "Live", "NegRA", "NegRAFix",
                "Mut_processingDone", "Mut_invalidOk", "Mut_noTimer", "Mut_certEarly", "GenQ", "GenAll", "GenDeep", "GenSess",
                "FlowMC1", "FlowMC2", "FlowLive", "FlowGen1", "FlowGen2"]
        workers = {"MCmal": 6, "MCdeep": 6, "MCsess": 6, "GenDeep": 6, "GenAll": 6, "GenSess": 4, "GenQ": 4, "MCq": 4, "MCall": 4, "FlowGen2": 6}
    else:
        cfgs = ["MCq", "NegRA", "GenQ", "FlowMC1", "FlowGenQ"]
        workers = {"MCq": 5, "GenQ": 8, "NegRA": 1, "FlowMC1": 2, "FlowGenQ": 2}
    if os.environ.get("VERIF_SKIP_MC"):          # development aid for mutation runs; recorded in the evidence
        cfgs = [c for c in cfgs if _isgen(c)]
        ctx.skipped.append("VERIF_SKIP_MC set: exhaustive model checking skipped")
    tpm, tpr = ctx.tmp("x02_rand_mal.ndjson"), ctx.tmp("x02_rand_rfc.ndjson")

    def early_go():
        out = []
        out.append(ctx.go_test("x02", "TestRetryAfterForms", timeout=300))        # (4)
        out.append(ctx.go_test("x02", "TestRandom", timeout=900, env={"VERIF_TRACES": tpm, "X02_MALFORMED": "1", "X02_SESSIONS": ctx.pick(60, 500)}))
        out.append(ctx.go_test("x02", "TestRandom", timeout=900, env={"VERIF_TRACES": tpr, "X02_MALFORMED": "0", "X02_SESSIONS": ctx.pick(60, 500)}))
        return out
    with cf.ThreadPoolExecutor(max_workers=1) as ex:
        fut = ex.submit(early_go)
        res = _par_tlc(ctx, cfgs, {c: workers.get(c, 2) for c in cfgs})
        early = fut.result()
    for r in early:
        ctx.absorb(r, validated=False)
    if _unknown_violations(ctx):
        return
    mal, rfc = _load_traces(tpm), _load_traces(tpr)

    # ---- phase 2, concurrently: (3) trace validation of the random sessions  ||  (2) replays
    nval = [0]

    def validate_random():
        if ctx.thorough:
            nval[0] += ctx.validate_traces("AcmeOrder_Trace", mal, cfg="AcmeOrder_Trace.cfg", sig_prefix="x02-trace-rejected", timeout=1500, max_rejects=3)
            nval[0] += ctx.validate_traces("AcmeOrder_Trace", rfc, cfg="AcmeOrder_TraceRFC.cfg", sig_prefix="x02-trace-rejected", timeout=1500, max_rejects=3)
        else:
            nval[0] += ctx.validate_traces("AcmeOrder_Trace", mal + rfc, cfg="AcmeOrder_Trace.cfg", sig_prefix="x02-trace-rejected", timeout=900, max_rejects=3)
    tp = ctx.tmp("x02_replay_traces.ndjson")
    with cf.ThreadPoolExecutor(max_workers=1) as ex:
        fut = ex.submit(validate_random)
        first = True
        for g in [c for c in cfgs if _isgen(c)]:
            traces = res[g].traces
            if not traces:
                raise vlib.Infra("generator %s produced no behaviours" % g)
            if g.startswith("Flow"):
                cap = ctx.pick(600, 12000)
                if len(traces) > cap:      # the flow replay costs ~4 ms per behaviour (keys, CSR, certificates): seeded sample
                    traces = random.Random(ctx.seed * 31 + len(traces)).sample(traces, cap)
                    ctx.notes.append("%s: %d of %d behaviours replayed (seeded sample)" % (g, cap, len(res[g].traces)))
                r = ctx.go_test("x02", "TestFlow", cases=traces, timeout=1500)
            else:
                env = {"X02_BUDGET": budget}
                if first and ctx.thorough:
                    env["VERIF_TRACES"] = tp
                first = False
                r = ctx.go_test("x02", "TestReplay", cases=traces, timeout=1500, env=env)
            ctx.log("%s: %d behaviours replayed on the real code, %d violations" % (g, r.get("evaluations", 0), len(r.get("violations") or [])))
            ctx.absorb(r, validated=True)
            res[g].traces = None
            if _unknown_violations(ctx):
                break       # the real code already contradicted the model in the replay: verdict is settled
        fut.result()
    if _unknown_violations(ctx):
        return
    if ctx.thorough and os.path.exists(tp):
        rep = _sample(ctx, _load_traces(tp), 30000, 1)
        nval[0] += ctx.validate_traces("AcmeOrder_Trace", rep, cfg="AcmeOrder_Trace.cfg", sig_prefix="x02-trace-rejected", timeout=1500, max_rejects=3)
    ctx.log("recorded traces validated by AcmeOrder_Trace: %d (random malformed %d, random conforming %d%s)"
            % (nval[0], len(mal), len(rfc), ", plus sampled replay logs" if ctx.thorough else ""))
    ctx.extra["recorded_traces_validated"] = nval[0]
    ctx.exhaustive = False
    ctx.notes.append("model checking is exhaustive within the stated bounds; the replay covers every behaviour of the generator instances "
                     "(quick: one witness per distinct model state and last event; thorough adds all histories of the conforming server, "
                     "4-reply witnesses and two-call sessions); random sessions are sampled (seeded) and judged by trace validation")
    ctx.notes.append("observations, not charged: Order.URI is whatever the Location header says (empty when a GET of the order carries none); "
                     "the Content-Type of replies is never inspected; AuthorizeOrder accepts a 201 without Location (order with empty URI); "
                     "autocert verifyRFC requests a new order immediately after a failed WaitOrder, bounded only by the caller's context")
