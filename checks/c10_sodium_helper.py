#!/usr/bin/env python3
"""libsodium as the independent NaCl implementation for C10 (and a third opinion for C09).

Stand-alone script (run in a subprocess so that a crash of the foreign library can never take the
check driver down): reads a JSON list of requests {"op": name, <hex arguments>} on stdin and writes a
JSON list of answers {"ok": bool, <hex results>} on stdout.  libsodium is reached through PyNaCl's
bundled copy if PyNaCl is importable, otherwise through ctypes on the system libsodium shared
library.  `--probe` prints {"available": bool, "how": ..., "version": ...} and exits 0.

Nothing here decides a verdict on its own: the caller compares these answers with what the real
golang.org/x/crypto code produced / accepts."""
import ctypes, ctypes.util, glob, json, os, sys


def load():
    cands = []
    try:
        import nacl  # PyNaCl bundles libsodium as nacl/_sodium*.so
        cands += glob.glob(os.path.join(os.path.dirname(nacl.__file__), "_sodium*.so"))
    except Exception:
        pass
    for n in (ctypes.util.find_library("sodium"), "libsodium.so.23", "libsodium.so.26", "libsodium.so"):
        if n:
            cands.append(n)
    for c in cands:
        try:
            lib = ctypes.CDLL(c)
            if lib.sodium_init() < 0:
                continue
            lib.sodium_version_string.restype = ctypes.c_char_p
            lib.crypto_box_seal  # must exist
            return lib, c
        except Exception:
            continue
    return None, None


def H(x):
    return bytes.fromhex(x)


def buf(n):
    return ctypes.create_string_buffer(max(n, 1))


ULL = ctypes.c_ulonglong


def run(lib, r):
    op = r["op"]
    if op == "secretbox_easy":
        m, n, k = H(r["m"]), H(r["n"]), H(r["k"])
        c = buf(len(m) + 16)
        rc = lib.crypto_secretbox_easy(c, m, ULL(len(m)), n, k)
        return {"ok": rc == 0, "c": c.raw[:len(m) + 16].hex()}
    if op == "secretbox_open_easy":
        c, n, k = H(r["c"]), H(r["n"]), H(r["k"])
        if len(c) < 16:
            return {"ok": False}
        m = buf(len(c) - 16)
        rc = lib.crypto_secretbox_open_easy(m, c, ULL(len(c)), n, k)
        return {"ok": rc == 0, "m": m.raw[:len(c) - 16].hex() if rc == 0 else ""}
    if op == "box_easy":
        m, n, pk, sk = H(r["m"]), H(r["n"]), H(r["pk"]), H(r["sk"])
        c = buf(len(m) + 16)
        rc = lib.crypto_box_easy(c, m, ULL(len(m)), n, pk, sk)
        return {"ok": rc == 0, "c": c.raw[:len(m) + 16].hex() if rc == 0 else ""}
    if op == "box_open_easy":
        c, n, pk, sk = H(r["c"]), H(r["n"]), H(r["pk"]), H(r["sk"])
        if len(c) < 16:
            return {"ok": False}
        m = buf(len(c) - 16)
        rc = lib.crypto_box_open_easy(m, c, ULL(len(c)), n, pk, sk)
        return {"ok": rc == 0, "m": m.raw[:len(c) - 16].hex() if rc == 0 else ""}
    if op == "box_beforenm":
        pk, sk = H(r["pk"]), H(r["sk"])
        k = buf(32)
        rc = lib.crypto_box_beforenm(k, pk, sk)
        return {"ok": rc == 0, "k": k.raw[:32].hex() if rc == 0 else ""}
    if op == "box_easy_afternm":
        m, n, k = H(r["m"]), H(r["n"]), H(r["k"])
        c = buf(len(m) + 16)
        rc = lib.crypto_box_easy_afternm(c, m, ULL(len(m)), n, k)
        return {"ok": rc == 0, "c": c.raw[:len(m) + 16].hex()}
    if op == "box_open_easy_afternm":
        c, n, k = H(r["c"]), H(r["n"]), H(r["k"])
        if len(c) < 16:
            return {"ok": False}
        m = buf(len(c) - 16)
        rc = lib.crypto_box_open_easy_afternm(m, c, ULL(len(c)), n, k)
        return {"ok": rc == 0, "m": m.raw[:len(c) - 16].hex() if rc == 0 else ""}
    if op == "box_seal":
        m, pk = H(r["m"]), H(r["pk"])
        c = buf(len(m) + 48)
        rc = lib.crypto_box_seal(c, m, ULL(len(m)), pk)
        return {"ok": rc == 0, "c": c.raw[:len(m) + 48].hex() if rc == 0 else ""}
    if op == "box_seal_open":
        c, pk, sk = H(r["c"]), H(r["pk"]), H(r["sk"])
        if len(c) < 48:
            return {"ok": False}
        m = buf(len(c) - 48)
        rc = lib.crypto_box_seal_open(m, c, ULL(len(c)), pk, sk)
        return {"ok": rc == 0, "m": m.raw[:len(c) - 48].hex() if rc == 0 else ""}
    if op == "scalarmult_base":
        sk = H(r["sk"])
        pk = buf(32)
        rc = lib.crypto_scalarmult_base(pk, sk)
        return {"ok": rc == 0, "pk": pk.raw[:32].hex()}
    if op == "sign_seed_keypair":
        seed = H(r["seed"])
        pk, sk = buf(32), buf(64)
        rc = lib.crypto_sign_seed_keypair(pk, sk, seed)
        return {"ok": rc == 0, "pk": pk.raw[:32].hex(), "sk": sk.raw[:64].hex()}
    if op == "sign":
        m, sk = H(r["m"]), H(r["sk"])
        sm = buf(len(m) + 64)
        smlen = ULL(0)
        rc = lib.crypto_sign(sm, ctypes.byref(smlen), m, ULL(len(m)), sk)
        return {"ok": rc == 0, "sm": sm.raw[:smlen.value].hex()}
    if op == "sign_open":
        sm, pk = H(r["sm"]), H(r["pk"])
        if len(sm) < 64:
            return {"ok": False}
        m = buf(len(sm))
        mlen = ULL(0)
        rc = lib.crypto_sign_open(m, ctypes.byref(mlen), sm, ULL(len(sm)), pk)
        return {"ok": rc == 0, "m": m.raw[:mlen.value].hex() if rc == 0 else ""}
    if op == "auth":
        m, k = H(r["m"]), H(r["k"])
        a = buf(32)
        rc = lib.crypto_auth(a, m, ULL(len(m)), k)
        return {"ok": rc == 0, "a": a.raw[:32].hex()}
    if op == "auth_verify":
        a, m, k = H(r["a"]), H(r["m"]), H(r["k"])
        if len(a) != 32:
            return {"ok": False}
        rc = lib.crypto_auth_verify(a, m, ULL(len(m)), k)
        return {"ok": rc == 0}
    if op == "stream_salsa20_xor_ic":
        m, n, k = H(r["m"]), H(r["n"]), H(r["k"])
        c = buf(len(m))
        rc = lib.crypto_stream_salsa20_xor_ic(c, m, ULL(len(m)), n, ULL(int(r["ic"])), k)
        return {"ok": rc == 0, "c": c.raw[:len(m)].hex()}
    if op == "stream_xsalsa20_xor":
        m, n, k = H(r["m"]), H(r["n"]), H(r["k"])
        c = buf(len(m))
        rc = lib.crypto_stream_xsalsa20_xor(c, m, ULL(len(m)), n, k)
        return {"ok": rc == 0, "c": c.raw[:len(m)].hex()}
    if op == "core_hsalsa20":
        i, k, c = H(r["in"]), H(r["k"]), H(r["c"])
        o = buf(32)
        rc = lib.crypto_core_hsalsa20(o, i, k, c)
        return {"ok": rc == 0, "out": o.raw[:32].hex()}
    if op == "core_salsa208":
        b = H(r["in64"])       # 64-byte core input in the Salsa20 layout c0 k[0:16] c1 in16 c2 k[16:32] c3
        c = b[0:4] + b[20:24] + b[40:44] + b[60:64]
        k = b[4:20] + b[44:60]
        i = b[24:40]
        o = buf(64)
        rc = lib.crypto_core_salsa208(o, i, k, c)
        return {"ok": rc == 0, "out": o.raw[:64].hex()}
    return {"ok": False, "error": "unknown op " + op}


def main():
    lib, how = load()
    if "--probe" in sys.argv:
        print(json.dumps({"available": lib is not None, "how": how, "version": lib.sodium_version_string().decode() if lib else None}))
        return 0
    if lib is None:
        print(json.dumps({"error": "libsodium not available"}))
        return 3
    reqs = json.load(sys.stdin)
    out = []
    for r in reqs:
        try:
            out.append(run(lib, r))
        except Exception as e:  # a malformed request is the caller's problem, never a verdict
            out.append({"ok": False, "error": repr(e)})
    json.dump(out, sys.stdout)
    return 0


if __name__ == "__main__":
    sys.exit(main())
