"""C28 — algorithm negotiation is symmetric and follows RFC 4253 7.1.

Spec: spec/SSHNegotiate.tla (+ _MC).  TLC (a) model-checks the transcription of
findCommon/findAgreedAlgorithms against the declarative RFC rule and the mirror property for
every list pair (length<=3 over known/unknown names) per slot, the cipher x MAC interplay per
direction, and a whole-message product; (b) emits every explored negotiation with the model's
prediction, which the harness replays on the real findAgreedAlgorithms for both roles."""

def run(ctx):
    ctx.level = "model_checking"
    ctx.rule = ("cases = KEXINIT pairs enumerated by TLC from SSHNegotiate_MC menus (per-slot exhaustive list pairs of "
                "length<=3 over {a,b,unknown}; cipher x MAC pairs per direction with an AEAD name; whole-message products); "
                "each replayed for both roles; distinct = distinct (clientKexInit, serverKexInit, role)")
    ctx.assumptions = ["SSH name-lists compared as opaque strings (as the code does); only membership in the AEAD set matters",
                       "hook VerifFindAgreedAlgorithms passes the KEXINITs through Marshal/Unmarshal and calls findAgreedAlgorithms unchanged"]
    mc = ["Kex", "HostKey", "CompCS", "CompSC", "CipherMacCS", "CipherMacSC", "Whole"]
    if ctx.thorough:
        mc.append("WholeBig")
    from concurrent.futures import ThreadPoolExecutor
    vlib = __import__("vlib")
    # independent TLC runs side by side (JVM start-up dominates these small models)
    with ThreadPoolExecutor(max_workers=8) as pool:
        fm = [pool.submit(ctx.tlc_must_hold, "SSHNegotiate_MC", cfg="SSHNegotiate_%s.cfg" % m, workers=2, timeout=900) for m in mc + ["E2E"]]
        gens = ["GenKex", "GenCipherMacCS", "GenCipherMacSC", "GenWhole", "GenE2E"] + (["GenWholeBig"] if ctx.thorough else [])
        fg = {g: pool.submit(ctx.tlc_must_hold, "SSHNegotiate_MC", cfg="SSHNegotiate_%s.cfg" % g, workers=1, timeout=1800, count=False) for g in gens}
        for f in fm:
            f.result()
        gen = {g: f.result() for g, f in fg.items()}
    for g in gens:
        if g == "GenE2E":
            continue
        r = gen[g]
        ctx.log("%s: %d behaviours" % (g, len(r.traces)))
        if not r.traces:
            raise vlib.Infra("generator %s produced no behaviours" % g)
        res = ctx.go_test("c28", "TestReplay", cases=r.traces, timeout=900)
        ctx.absorb(res)
    # end-to-end: the same rule through real connections (sendKexInit assembles the KEXINITs from the configs)
    e2e = gen["GenE2E"].traces
    if not e2e:
        raise __import__("vlib").Infra("E2E generator produced nothing")
    if not ctx.thorough:
        import random
        random.Random(ctx.seed).shuffle(e2e)
        e2e = e2e[:1500]
    res = ctx.go_test("c28", "TestE2E", cases=e2e, timeout=1500)
    ctx.log("E2E: %d real handshakes" % res.get("evaluations", 0))
    ctx.absorb(res)
    ctx.exhaustive = True
