"""C52 -- bn256 group operations, pairing and encodings are sound (claimed narrowly).

Spec: spec/Bn256Enc.tla.  Part 1: an accepted G1/G2 encoding = every coordinate below p and the point on the curve
(or the all-zero encoding of infinity); model-checked exhaustively on a toy curve of the same shape (round trip, only
curve points, one encoding per element) for the property's predicate and for the predicate the code implements, and as
a decision table over coordinate classes for the real curve.  Part 2: the group and pairing laws over Z_n for scalar
classes {0,1,2,n-1,n,n+1,-1,-2,r1,r2}.  TLC emits every class tuple / law instance; the harness materialises them on
the real curve with math/big and evaluates them with the real G1/G2/GT operations (metamorphic)."""
import vlib


def run(ctx):
    ctx.level = "model_checking"
    ctx.rule = ("cases = encoding class tuples (5 classes per coordinate, G1: 2 coordinates, G2: 4, residues on/off the curve) and law "
                "instances (homomorphism, scalar multiplication, associativity/commutativity, inverse/identity, order, round trip, "
                "bilinearity, non-degeneracy) over 10 scalar classes for G1, G2, GT, all enumerated by TLC from Bn256Enc; distinct = "
                "distinct case record; class tuples that cannot be materialised (a curve point with a prescribed zero / 2^256-1 "
                "coordinate) are counted as unrealised, not as evaluated")
    ctx.assumptions = [
        "the curve parameters (p, Order, the curve and twist constants, the generators) are the definition of the groups",
        "metamorphic binding: both sides of every law are computed by the package itself; expected logarithms with math/big",
        "the numeric correctness of the tower-field arithmetic (gfp2/gfp6/gfp12, Miller loop, final exponentiation) is NOT decided by the specification",
        "group laws are checked on elements generated from the generators (G2.Unmarshal does not check subgroup membership; the property does not ask for it)",
    ]
    import concurrent.futures as cf
    with cf.ThreadPoolExecutor(max_workers=3) as ex:
        f1 = ex.submit(lambda: ctx.tlc("Bn256Enc_MC", cfg="Bn256Enc_MC.cfg", workers=2, timeout=900))
        # the predicate the code implements violates 'one encoding per element' already in the toy instance: documented counterexample
        f2 = ex.submit(lambda: ctx.tlc("Bn256Enc_MC", cfg="Bn256Enc_DocImpl.cfg", workers=1, timeout=900, expect_violation=True, count=False,
                                       note="documents finding C52-F5 at toy scale: expected counterexample to ImplOneEncoding"))
        f3 = ex.submit(lambda: ctx.tlc("Bn256Enc_MC", cfg="Bn256Enc_Gen.cfg", workers=1, timeout=900, count=False))
        m, r, g = f1.result(), f2.result(), f3.result()
    if not m.ok:
        raise vlib.Infra("design model Bn256Enc: %s violated (model-level counterexample):\n%s" % (m.violated, (m.cex or m.raw[-3000:])[:5000]))
    if not g.ok:
        raise vlib.Infra("generator Bn256Enc_Gen failed: %s" % (g.cex or g.raw[-2000:])[:3000])
    if r.violated != "ImplOneEncoding":
        ctx.notes.append("the toy counterexample to ImplOneEncoding was not found (TLC: %r)" % r.violated)
    if not g.traces:
        raise vlib.Infra("generator produced no cases")
    ctx.log("%d cases" % len(g.traces))
    res = ctx.go_test("c52", "^TestCases$", cases=g.traces, timeout=3000)
    ctx.absorb(res)
    ex = res.get("extra", {})
    if ex.get("enc_cases_G1", 0) < 20 or ex.get("enc_cases_G2", 0) < 300 or ex.get("law_cases", 0) < 1500:
        raise vlib.Infra("too few cases materialised: %s" % ex)
    ctx.exhaustive = True
    ctx.notes.append("exhaustive over the modelled classes; within a class the points and the scalars r1, r2 are seeded random (thorough: 10 materialisations per case)")
