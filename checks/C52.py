"""C52 -- bn256 group operations, pairing and encodings are sound (claimed narrowly).

Spec: spec/Bn256Enc.tla.  Part 1: an accepted G1/G2 encoding = every coordinate below p and the point on the curve
(or the all-zero encoding of infinity); model-checked exhaustively on a toy curve of the same shape (round trip, only
curve points, one encoding per element) for the property's predicate and for the predicate the code implements, and as
a decision table over coordinate classes for the real curve.  Part 2: the group and pairing laws over Z_n for scalar
classes {0,1,2,n-1,n,n+1,-1,-2,r1,r2}.  TLC emits every class tuple / law instance; the harness materialises them on
the real curve with math/big and evaluates them with the real G1/G2/GT operations (metamorphic)."""
import vlib


def run(ctx):
    ctx.level = "model_checking"
    ctx.rule = ("cases = encoding class tuples (5 classes per coordinate, G1: 2 coordinates, G2: 4, residues on/off the curve) and law "
                "instances (homomorphism, scalar multiplication, associativity/commutativity, inverse/identity, order, round trip, "
                "bilinearity, non-degeneracy) over 10 scalar classes for G1, G2, GT, all enumerated by TLC from Bn256Enc; distinct = "
                "distinct case record; the model marks the class tuples that must be materialised (all off-curve tuples; on-curve tuples that "
                "prescribe the residue of at most one coordinate, built with square and cube roots in GF(p) and GF(p^2); on G1 no affine point "
                "has a zero coordinate, which the harness verifies) -- a required tuple that cannot be built is exit 2; tuples prescribing "
                "two or more residues are built where a solution exists and counted as unrealised_optional otherwise")
    ctx.assumptions = [
        "the curve parameters (p, Order, the curve and twist constants, the generators) are the definition of the groups",
        "metamorphic binding: both sides of every law are computed by the package itself; expected logarithms with math/big",
        "the numeric correctness of the tower-field arithmetic (gfp2/gfp6/gfp12, Miller loop, final exponentiation) is NOT decided by the specification",
        "group laws are checked on elements generated from the generators (G2.Unmarshal does not check subgroup membership; the property does not ask for it)",
    ]
    import concurrent.futures as cf
    with cf.ThreadPoolExecutor(max_workers=5) as ex:
        f1 = ex.submit(lambda: ctx.tlc("Bn256Enc_MC", cfg="Bn256Enc_MC.cfg", workers=2, timeout=900))
        # a toy curve that has points with a zero coordinate (as the real twist has)
        f0 = ex.submit(lambda: ctx.tlc("Bn256Enc_MC", cfg="Bn256Enc_MC0.cfg", workers=2, timeout=900))
        # Doc configurations: the two wrong predicates (the code before the repair 57c7a7b; an off-by-one comparison with p)
        # lose 'one encoding per element' already in the toy instance -- TLC must still find these counterexamples
        f2 = ex.submit(lambda: ctx.tlc("Bn256Enc_MC", cfg="Bn256Enc_DocImpl.cfg", workers=1, timeout=900, expect_violation=True, count=False,
                                       note="expected counterexample: the pre-repair predicate (coordinates reduced modulo p) gives an element several encodings"))
        f4 = ex.submit(lambda: ctx.tlc("Bn256Enc_MC", cfg="Bn256Enc_DocLeP.cfg", workers=1, timeout=900, expect_violation=True, count=False,
                                       note="expected counterexample: a comparison '<= p' accepts the value p as a second spelling of a zero coordinate"))
        f3 = ex.submit(lambda: ctx.tlc("Bn256Enc_MC", cfg="Bn256Enc_Gen.cfg", workers=1, timeout=900, count=False))
        m, m0, r, r2, g = f1.result(), f0.result(), f2.result(), f4.result(), f3.result()
    for mm in (m, m0):
        if not mm.ok:
            raise vlib.Infra("design model Bn256Enc: %s violated (model-level counterexample):\n%s" % (mm.violated, (mm.cex or mm.raw[-3000:])[:5000]))
    if not g.ok:
        raise vlib.Infra("generator Bn256Enc_Gen failed: %s" % (g.cex or g.raw[-2000:])[:3000])
    if r.violated != "OldOneEncoding" or r2.violated != "LePOneEncoding":
        raise vlib.Infra("the documented toy counterexamples were not found (TLC: %r, %r): the model no longer separates the wrong predicates" % (r.violated, r2.violated))
    if not g.traces:
        raise vlib.Infra("generator produced no cases")
    ctx.log("%d cases" % len(g.traces))
    res = ctx.go_test("c52", "^TestCases$", cases=g.traces, timeout=3000)
    ctx.absorb(res)
    ex = res.get("extra", {})
    must = sum(1 for t in g.traces if t.get("kind") == "enc" and t.get("must"))
    missing = ex.get("unrealised_must_G1", 0) + ex.get("unrealised_must_G2", 0)
    ctx.extra["enc_class_tuples_required"] = must
    if missing:
        raise vlib.Infra("%d class tuples the model requires could not be materialised by the harness: %s" % (missing, ex.get("unrealised_must_samples")))
    for comp in range(4):
        for spelling in ("p", "zero"):
            if not ex.get("zero_component_on_curve_G2_%d_%s" % (comp, spelling)):
                raise vlib.Infra("no twist point with component %d congruent to 0 written as %s was materialised" % (comp, spelling))
    if ex.get("enc_cases_G1", 0) + ex.get("enc_cases_G2", 0) < must or ex.get("law_cases", 0) < 1500:
        raise vlib.Infra("too few cases materialised: %s" % ex)
    ctx.exhaustive = True
    ctx.notes.append("exhaustive over the modelled classes; within a class the points and the scalars r1, r2 are seeded random (thorough: 10 materialisations per case)")
