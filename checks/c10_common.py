"""Shared by C09 / C10: access to libsodium (the independent NaCl implementation) through
checks/c10_sodium_helper.py run in a subprocess.  Absence of libsodium is never a verdict: callers
record ctx.skipped and go on."""
import json, os, subprocess, sys
import vlib

HELPER = os.path.join(os.path.dirname(os.path.abspath(__file__)), "c10_sodium_helper.py")
PYTHONS = ["/root/.pyenv/versions/3.11.7/bin/python3", sys.executable, "python3"]
_probe = {}


def sodium_probe():
    """-> (python, info dict) of the first interpreter through which libsodium is reachable, or (None, None)."""
    if "r" in _probe:
        return _probe["r"]
    _probe["r"] = (None, None)
    for py in PYTHONS:
        try:
            p = subprocess.run(["timeout", "60", py, HELPER, "--probe"], capture_output=True, text=True)
            info = json.loads(p.stdout.strip().splitlines()[-1])
            if info.get("available"):
                _probe["r"] = (py, info)
                break
        except Exception:
            continue
    return _probe["r"]


def sodium(reqs, timeout=600):
    """Run the requests through libsodium.  Returns the list of answers; raises vlib.Infra if the helper
    breaks (after a successful probe) - an infrastructure failure, never a verdict."""
    py, info = sodium_probe()
    if py is None:
        return None
    p = subprocess.run(["timeout", str(timeout), py, HELPER], input=json.dumps(reqs), capture_output=True, text=True)
    if p.returncode != 0:
        raise vlib.Infra("libsodium helper failed (rc=%d): %s" % (p.returncode, p.stderr[-2000:]))
    try:
        ans = json.loads(p.stdout)
    except Exception as e:
        raise vlib.Infra("libsodium helper wrote no JSON: %r %s" % (e, p.stdout[-500:]))
    if not isinstance(ans, list) or len(ans) != len(reqs):
        raise vlib.Infra("libsodium helper answered %r requests out of %d" % (len(ans) if isinstance(ans, list) else ans, len(reqs)))
    return ans


def hexs(ints):
    return bytes(ints).hex()


def pat_byte(seed, i):
    """PrimWords!PatByte"""
    if seed == 0:
        return 0
    if seed == 1:
        return 255
    return ((seed * 131 + i * 197 + (i // 7) * 31 + 17) ^ (((i % 251) * (i % 241) + seed) % 256)) % 256


def pat(seed, n):
    return bytes(pat_byte(seed, i) for i in range(n))
