"""C05 - BLAKE2b and BLAKE2s digests are RFC 7693 on every SIMD path.

Specs: spec/PrimBlake2.tla (executable RFC 7693: F for b and s, parameter block, keyed hashing; anchored by
ASSUMEs of RFC 7693 appendix A/B and blake2-kat.json vectors), spec/Blake2Hash.tla (abstract hash object:
Sum = H(key, size, bytes since Reset), Sum stable, Reset restores the keyed initial state),
spec/Blake2Buf.tla (transcription of digest.Write/Sum/finalize/Reset and checkSum: the "keep a full last block
buffered until Sum" rule and the counter decrement), spec/Blake2Buf_Gen.tla (histories at the real block size),
spec/Blake2_Vec.tla (TLC-evaluated digest table).

TLC (a) model-checks the refinement Blake2Buf => Blake2Hash with block size 4 for unkeyed and keyed hashes (Sum's
F calls are exactly RFC 7693's whatever the chunking; BufInv; one-shot path); (b) evaluates the digest table;
(c) enumerates all Write/Sum/Reset histories of the depth bound over sizes around the block size.
The Go harness drives the real blake2b/blake2s on every hashBlocks variant forced through VerifSetDispatch
(AVX2, AVX, SSE4, generic | SSE4, SSSE3, SSE2, generic) and on the purego build, and compares byte-for-byte."""
import json
import vlib
from c05_common import par_tlc, judge_mc, genall_cfg, write_ndjson, hashlib_opinion


def run(ctx):
    ctx.level = "model_checking"
    ctx.rule = ("cases = (algorithm, hashBlocks variant, digest size, key length, call history or message): (1) TLC-evaluated digest table "
                "(spec/Blake2_Vec.tla: sizes x key lengths x message lengths around multiples of the block size) compared on every variant "
                "with 5 Write chunkings and the one-shot Sum256/384/512; (2) every history of exactly Depth calls (quick 3, thorough 4) from "
                "{Write(0,1,B-1,B,B+1,2B,2B+1), Sum, Reset} enumerated by TLC from Blake2Buf at the real block size, unkeyed and keyed, each replayed "
                "x digest sizes {64,32,1,20,48 | 32,16} x key lengths {0 | 1,32,64 | 1,16,32} x variants x 2 byte patterns, every Sum (and a final double Sum) compared; "
                "(3) seeded random histories (lengths 0..2000 around block multiples, random chunkings, Sum/Reset, sizes 1..64, keys 1..64|32) judged by the "
                "Go transcription validated against (1) in the same run; distinct = distinct (case, variant, size, key length, pattern)")
    ctx.assumptions = [
        "definition = spec/PrimBlake2.tla evaluated by TLC (anchored by RFC 7693 appendix A/B, keyed KAT and BLAKE2X KAT ASSUMEs); beyond the "
        "TLC-evaluated table a Go transcription (harness/c05ref) validated against that table in the same run",
        "block size scaled to 4 in the exhaustive refinement runs; histories are generated and replayed at the real block size (128 / 64)",
        "blake2s offers only 32-byte (any key) and 16-byte (keyed) digests through its API; those are the BLAKE2s sizes covered",
        "amd64: every variant the CPU supports is forced in turn through the verif hook; other architectures' code is not executed",
        "keys/messages are patterned (TLC) or seeded random; not enumerated",
    ]
    Q = not ctx.thorough
    mc = {
        "mc_k0": dict(module="Blake2Buf_MC", cfg="Blake2Buf_Refine_K0Q.cfg" if Q else "Blake2Buf_Refine_K0.cfg", workers=ctx.pick(3, 6),
                      coverage=ctx.thorough, note="refinement Blake2Buf => Blake2Hash, unkeyed, B=4, writes 0..9 (quick: 13 bytes, marshal actions off; thorough: 9 bytes with marshal)"),
        "mc_k2": dict(module="Blake2Buf_MC", cfg="Blake2Buf_Refine_K2.cfg", workers=2, note="refinement, keyed (key block buffered at Reset), B=4"),
    }
    if ctx.thorough:
        mc["mc_k4"] = dict(module="Blake2Buf_MC", cfg="Blake2Buf_Refine_K4.cfg", workers=2, note="refinement, keyed with a full-block key, B=4")
    vec = {"vec": dict(module="Blake2_Vec", cfg="Blake2_Vec_C05%s.cfg" % ("Quick" if Q else "Thorough"), workers=ctx.pick(4, 8))}

    if ctx.replay:
        d = json.load(open(ctx.replay))["violation"]["detail"]
        res = par_tlc(ctx, vec)
        judge_mc(ctx, res)
        vp = write_ndjson(ctx, "vec.ndjson", res["vec"].traces)
        cases = [{"alg": d["alg"], "keyed": d.get("keyed", 0), "h": d["history"]}] if d.get("history") else []
        for tags, pg in (("verif", "0"), ("verif,purego", "1")):
            ctx.absorb(ctx.go_test("c05", "TestReplay", cases=cases, tags=tags, timeout=900,
                                   env={"VERIF_C05_VEC": vp, "VERIF_C05_PUREGO": pg, "VERIF_C05_RANDOM": 200}))
        return

    depth = ctx.pick(3, 4)
    gens = {"gen": dict(module="Blake2Buf_GenAll", cfg_text=genall_cfg(depth), workers=ctx.pick(2, 4))}
    jobs = {}
    jobs.update(mc); jobs.update(vec); jobs.update(gens)
    res = par_tlc(ctx, jobs, timeout=2400)
    # the corruption disjunct of Next (UnmarshalCorrupt over empty value sets) is switched off in the refinement configs
    judge_mc(ctx, {k: res[k] for k in list(mc) + ["vec"]}, disabled={"mc_k0": ["Next"], "mc_k2": ["Next"], "mc_k4": ["Next"]})
    r = res["gen"]
    if not r.ok or len(r.traces) < 100:
        raise vlib.Infra("history generator failed or produced too little: %s" % ((r.cex or r.raw[-2000:]),))
    ctx.log("gen: %d histories in %.0fs" % (len(r.traces), r.wall))
    cases = [{"alg": t["w"][0], "keyed": int(t["w"][1]), "h": t["h"]} for t in r.traces]
    vp = write_ndjson(ctx, "vec.ndjson", res["vec"].traces)
    n = hashlib_opinion(ctx, vp)
    if n is None:
        ctx.skipped.append("hashlib third opinion on the oracle not available")
    else:
        ctx.extra["hashlib_agrees_with_tlc_on"] = n
    for tags, pg, nrand in (("verif", "0", ctx.pick(1500, 40000)), ("verif,purego", "1", ctx.pick(300, 5000))):
        r = ctx.go_test("c05", "TestReplay", cases=cases if pg == "0" or ctx.thorough else cases[::4], tags=tags, timeout=1500,
                        env={"VERIF_C05_VEC": vp, "VERIF_C05_PUREGO": pg, "VERIF_C05_RANDOM": nrand})
        ctx.log("replay tags=%s: %d evaluations, %d violations" % (tags, r.get("evaluations", 0), len(r.get("violations") or [])))
        ex = r.get("extra") or {}
        if ex.get("variants_not_supported_by_cpu"):
            ctx.skipped.append("variants not supported by this CPU: %s" % ex["variants_not_supported_by_cpu"])
        if ex.get("impl_state_image_mismatches_informational"):
            ctx.notes.append("informational: %d MarshalBinary images of the real state differ from the model's (offset, c) [%s]"
                             % (ex["impl_state_image_mismatches_informational"], tags))
        ctx.absorb(r)
    ctx.exhaustive = True
    ctx.notes.append("exhaustive over the model's write-size alphabet and depth; key/message contents sampled")
