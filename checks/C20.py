"""C20 - OpenPGP S2K derives RFC 4880 keys.

Specs: spec/S2K.tla (RFC 4880 3.7.1 over a CONSTANT hash: octets fed to hash context i = i zero octets then
passphrase / salt|passphrase / salt|passphrase repeated and truncated to max(count, |salt|+|pass|); outputs
concatenated and truncated; coded count (16+(c&15))<<((c>>4)+6); encodeCount; specifier wire format; Parse and
Serialize at the specifier level), spec/S2K_MC.tla (instantiation with the toy hash of spec/PrimToy.tla,
model-level laws, emission of keys, count table, written-out preimages, specifier samples).

Binding E+R: the REAL s2k.Simple/Salted/Iterated are run with the toy hash (they take a hash.Hash) and compared
with the TLC-evaluated keys for every key length 1..13 (up to 4 hash contexts); s2k.Parse / s2k.Serialize are
run with every supported hash id and judged by preimage: the expected key is the standard-library hash of the
octet string the specification says is hashed - written out by TLC for simple, salted and small-count iterated
specifiers, expanded from TLC's run-length form for all 256 coded counts; Serialize -> Parse round trip for
every hash id and coded count."""
import json
import vlib


def run(ctx):
    ctx.level = "model_checking"
    ctx.rule = ("cases = (a) toy hash: (mode, salt length, passphrase length 0..10, count in a scaled set incl. below/at/above |salt|+|pass| and non-multiples) "
                "x every key length 1..13 (1..4 contexts) with TLC-evaluated keys; (b) real hashes by preimage: (mode, hash id in {1,2,3,8,9,10,11}, passphrase "
                "lengths up to 100, coded counts 0,1,15,16 written out; key lengths 1, H-1, H, H+1, 2H+1, 64); (c) Serialize->Parse round trip per (hash id, coded "
                "count c): quick = every c with one hash id (rotating with the seed) and every hash id for c < 128, thorough = all 7 x 256; passphrases 0..100 "
                "octets; (d) encodeCount probes and specifier samples; distinct = distinct case label")
    ctx.assumptions = [
        "definition = spec/S2K.tla evaluated by TLC (toy hash) / hashed by the Go standard library and x/crypto/ripemd160 (trusted base) for real hashes",
        "the run-length expansion of large preimages (toyprim.FeedRL) is validated against the octet strings TLC writes out for small counts in the same run",
        "salts are 8 octets wherever a specifier is involved; Iterated with an empty salt and empty passphrase (loops forever for count > 0) is outside RFC 4880 and not called",
        "passphrases and salts are patterned, not enumerated",
    ]
    T = "T" if ctx.thorough else "Q"
    r = ctx.tlc("S2K_MC", cfg="S2K_MC_%s.cfg" % T, workers=ctx.pick(6, 10), timeout=ctx.pick(600, 1800),
                note="S2K over the toy hash: laws (count forms agree, monotone, encodeCount inverse/rounding, key prefix, mode degeneracies, run-length form, "
                     "Parse/Serialize at specifier level) + emitted keys, count table, preimages, specifier samples")
    if not r.ok:
        raise vlib.Infra("design model S2K_MC: %s violated:\n%s" % (r.violated, (r.cex or r.raw[-3000:])[:6000]))
    ctx.log("S2K_MC: %d distinct states, %d TRACE lines, %.0fs" % (r.distinct, len(r.traces), r.wall))
    cases = r.traces
    kinds = {}
    for c in cases:
        kinds[c.get("t")] = kinds.get(c.get("t"), 0) + 1
    if kinds.get("toy", 0) < 50 or kinds.get("pre", 0) < 10 or not kinds.get("counts") or not kinds.get("specs") or not kinds.get("toyvec"):
        raise vlib.Infra("S2K_MC produced too little: %r" % kinds)
    res = ctx.go_test("c20", "TestReplay", cases=cases, timeout=ctx.pick(400, 1500))
    ctx.log("replay: %d evaluations, %d violations" % (res.get("evaluations", 0), len(res.get("violations") or [])))
    ctx.absorb(res)
    ctx.exhaustive = bool(ctx.thorough)
    ctx.notes.append("coded counts: all 256 in both tiers; (hash id x coded count) product complete in the thorough tier only")
