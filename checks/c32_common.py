"""Shared by checks C32 and C33 (SSH server user authentication; spec/SSHAuthServer*.tla, harness/c32)."""
import json
import vlib

CONFIGS = ["K1", "K2", "K2n", "K3", "K4", "K5", "K5b", "K6", "K6b", "K7", "K7b", "K8"]
# the same tables explored path by path (every history, not one witness per transition) over a 14-request core alphabet, to 3 requests
ALLPATHS = ["K1ap", "K2ap", "K3ap", "K4ap", "K6bap"]
INVS = ("TypeOK SoundSuccess PermsFromFinalCallback PartialSwitch NoneOnlyBeforePartial FailureLimit AttemptLimit "
        "UserBound SrcEnforced PkOkSrc LastPkIsAuthKey")


def cfg_text(table, max_attempts, max_len, shallow=None, deep=(), general=None, gen=False, simulate=False, reqat="MCAt"):
    """TLC configuration for SSHAuthServer_MC / _Gen.  gen: also print witness histories (binding R).
    deep: configurations explored to max_len; the others to their own depth field, or to `shallow`."""
    shallow = max_len if shallow is None else shallow
    general = CONFIGS + ALLPATHS if general is None else general
    lines = ["SPECIFICATION %s" % ("GSpec" if gen else "Spec"), "CONSTANTS",
             "  Configs <- %s" % table, "  ReqAt <- %s" % reqat,
             "  General = {%s}" % ", ".join('"%s"' % d for d in general), "  MaxAttempts = %d" % max_attempts,
             "  MaxLen = %d" % max_len, "  ShallowLen = %d" % shallow,
             "  DeepConfigs = {%s}" % ", ".join('"%s"' % d for d in deep)]
    if simulate:
        # random walks: properties as invariants along the walk, completed behaviours printed
        lines.append("INVARIANTS EmitDone " + INVS)
    else:
        lines.append("INVARIANTS " + ("EmitCfg " if gen else "") + INVS)
        lines.append("VIEW View")
        lines.append("ACTION_CONSTRAINT CheckAC" + (" EmitAC" if gen else ""))
    lines.append("CHECK_DEADLOCK FALSE")
    return "\n".join(lines) + "\n"


def split_traces(traces):
    """Generator output -> (config definition lines, history lines)."""
    cfgs, hists = {}, []
    for t in traces:
        if t.get("kind") == "cfg":
            cfgs[json.dumps(t["name"])] = t
        elif t.get("kind") == "hist":
            hists.append(t)
    return cfgs, hists


def cases(cfgs, hists):
    return list(cfgs.values()) + hists


def replay(ctx, prop, cfgs, hists, what, timeout=900):
    if not hists:
        raise vlib.Infra("generator produced no histories (%s)" % what)
    res = ctx.go_test("c32", "TestReplay", cases=cases(cfgs, hists), env={"VERIF_PROP": prop}, timeout=timeout)
    ex = res.get("extra") or {}
    ctx.log("%s: %d histories replayed on serverAuthenticate (%d requests); real outcomes: success=%s error=%s disc_failures=%s "
            "disc_attempts=%s running=%s partial-steps=%s; informational mismatches=%s" % (
                what, res.get("evaluations", 0), ex.get("requests_replayed", 0), ex.get("real_success", 0), ex.get("real_error", 0),
                ex.get("real_disc_failures", 0), ex.get("real_disc_attempts", 0), ex.get("real_running", 0),
                ex.get("real_partial_success_steps", 0), ex.get("informational_mismatches", 0)))
    if ex.get("informational_mismatches"):
        ctx.notes.append("%s: %d differences from the model in details neither property states (%s); e.g. %s" % (
            what, ex["informational_mismatches"], ex.get("informational_kinds", ""), "; ".join((ex.get("informational_samples") or [])[:3])))
    ctx.absorb(res)
    return res


def replay_one(ctx, prop):
    """--replay <file>: re-run the single history recorded in a replay file."""
    with open(ctx.replay) as fh:
        d = json.load(fh)["violation"]["detail"]
    cfg = d["config"]
    line_cfg = {"kind": "cfg", "name": cfg["name"], "def": cfg, "maxAttempts": 128}
    line_hist = {"kind": "hist", "cfg": cfg["name"], "hist": d["history"]}
    res = ctx.go_test("c32", "TestReplay", cases=[line_cfg, line_hist], env={"VERIF_PROP": prop}, timeout=300)
    ctx.absorb(res)
    ctx.notes.append("replay of one recorded history (%s)" % ctx.replay)
