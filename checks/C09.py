"""C09 - Salsa20/XSalsa20 keystream equals the specification, incl. the 64-bit counter carry;
assembly = portable; HSalsa20 and Core208 equal their definitions.

Specs: spec/PrimSalsa.tla (executable definitions: quarterround .. Salsa20 hash with 20 and 8 rounds,
32-byte-key expansion, 64-bit little-endian block counter on limbs, HSalsa20, XSalsa20; ASSUMEs of the
published vectors of the Salsa20 specification, RFC 7914 and "Cryptography in NaCl"),
spec/SalsaStream.tla (the block/counter bookkeeping of genericXORKeyStream and of the amd64 assembly
as state machines refining the definition's "byte i uses counter c0 + i div 64 mod 2^64"),
spec/PrimSalsa_Gen.tla (TLC evaluates keystream tables for the start counters 0, 2^32-5..2^32+1,
2^64-5..2^64-1 (wrap), every byte carry; XSalsa20; HSalsa20; Salsa20/8 core).

The Go harness compares salsa.XORKeyStream (assembly with tags verif, portable with verif,purego),
genericXORKeyStream (hook), salsa20.XORKeyStream (8/24-byte nonces), salsa.HSalsa20 and salsa.Core208
byte-for-byte with the TLC-evaluated tables, then sweeps every length 0..2000 for every start counter
with a Go transcription validated against the TLC tables in the same run.  libsodium (if reachable)
re-computes the TLC tables as a third opinion (never a verdict)."""
import concurrent.futures, json
import vlib
import c10_common


def _third_opinion(ctx, vecs):
    py, info = c10_common.sodium_probe()
    if py is None:
        ctx.skipped.append("libsodium not reachable: third-opinion comparison of the TLC-evaluated Salsa20 tables skipped")
        return
    reqs, exp = [], []
    for v in vecs:
        b = bytes(v["bytes"])
        if v["t"] == "ks":
            cb = bytes(v["cb"])
            reqs.append({"op": "stream_salsa20_xor_ic", "m": bytes(len(b)).hex(), "n": cb[:8].hex(),
                         "ic": int.from_bytes(cb[8:], "little"), "k": c10_common.pat(v["kseed"], 32).hex()})
            exp.append(("c", b.hex(), v))
        elif v["t"] == "xs":
            reqs.append({"op": "stream_xsalsa20_xor", "m": bytes(len(b)).hex(), "n": c10_common.pat(v["nseed"], 24).hex(),
                         "k": c10_common.pat(v["kseed"], 32).hex()})
            exp.append(("c", b.hex(), v))
        elif v["t"] == "hs":
            c = b"expand 32-byte k" if v["cseed"] < 0 else c10_common.pat(v["cseed"], 16)
            reqs.append({"op": "core_hsalsa20", "in": c10_common.pat(v["nseed"], 16).hex(), "k": c10_common.pat(v["kseed"], 32).hex(), "c": c.hex()})
            exp.append(("out", b.hex(), v))
        elif v["t"] == "c208":
            reqs.append({"op": "core_salsa208", "in64": c10_common.pat(v["seed"], 64).hex()})
            exp.append(("out", b.hex(), v))
    ans = c10_common.sodium(reqs)
    bad = [(e[2]["t"], e[2].get("start")) for a, e in zip(ans, exp) if not a.get("ok") or a.get(e[0]) != e[1]]
    ctx.extra["libsodium_third_opinion"] = {"version": info.get("version"), "how": info.get("how"), "tables_compared": len(reqs), "disagreements": len(bad)}
    if bad:
        # the TLA+ definition (anchored by published vectors) and libsodium disagree: not a statement about /repo
        raise vlib.Infra("libsodium disagrees with the TLC-evaluated PrimSalsa tables on %d cases, e.g. %r" % (len(bad), bad[:5]))
    ctx.log("libsodium %s agrees with all %d TLC-evaluated tables" % (info.get("version"), len(reqs)))


def run(ctx):
    ctx.level = "model_checking"
    ctx.rule = ("cases = (implementation, key, 16-byte counter block, input, length, separate | in==out); implementations: salsa.XORKeyStream "
                "(amd64 assembly; portable under purego), genericXORKeyStream (hook), salsa20.XORKeyStream with 8- and 24-byte nonces; "
                "TLC-evaluated: keystream tables for the named start counters (0, 2^32-5..2^32+1, 2^64-5..2^64-1 with wrap, 2^(8k)-1), XSalsa20 streams, "
                "HSalsa20 (Sigma and arbitrary constants) and Salsa20/8 cores on patterned inputs, each compared at the length classes 0,1,2,31..33 and 64k-1,64k,64k+1; "
                "amplifier: every length 0..2000 x ~46 (thorough ~66) start counters x random keys (quick: one random key at every length, the all-ones key at the length classes), long messages up to 72000 bytes with counters that carry/wrap inside the message, "
                "random HSalsa20/Core208 inputs, judged by the Go transcription validated against the TLC tables; distinct = distinct (implementation, start counter, length) resp. input")
    ctx.assumptions = [
        "definition = spec/PrimSalsa.tla evaluated by TLC, anchored by ASSUMEs of the Salsa20 specification's quarterround/hash/expansion examples, RFC 7914 section 8 (Salsa20/8) "
        "and the HSalsa20/XSalsa20 examples of 'Cryptography in NaCl'",
        "keys/nonces/inputs: patterned (TLC-evaluated) plus seeded random ones; not enumerated; lengths enumerated 0..2000",
        "amd64: assembly vs portable selected by build tag purego, and the portable function additionally through hook VerifGenericXORKeyStream in the assembly build; "
        "other architectures only have the portable code",
        "SalsaStream.tla model-checks the counter bookkeeping on scaled constants (block 2-3 bytes, counter 4 digits base 2/4, halves of 2 digits); the real sizes are covered by the byte comparison",
    ]
    T = "T" if ctx.thorough else "Q"
    jobs = {
        "mc": dict(module="SalsaStream", cfg="SalsaStream_MC_%s.cfg" % T, workers=ctx.pick(2, 6), coverage=True,
                   note="generic and assembly counter/block bookkeeping refine the definition (prefix, counter, final output, termination)"),
        "mc_nocarry": dict(module="SalsaStream", cfg="SalsaStream_MC_NoCarry.cfg", workers=1, expect_violation=True,
                           note="non-vacuity: an assembly that increments only the low counter word violates CounterOK/PrefixOK"),
        "gen": dict(module="PrimSalsa_Gen", cfg="PrimSalsa_Gen%s.cfg" % T, workers=ctx.pick(6, 12), note="TLC evaluates the Salsa20 tables; split/XSalsa laws"),
    }
    res = {}
    with concurrent.futures.ThreadPoolExecutor(max_workers=len(jobs)) as ex:
        futs = {k: ex.submit(ctx.tlc, timeout=1500, count=False, **kw) for k, kw in jobs.items()}
        for k, f in futs.items():
            res[k] = f.result()
    if res["mc_nocarry"].violated not in ("CounterOK", "PrefixOK", "DoneOK"):
        raise vlib.Infra("non-vacuity check failed: the NoCarry variant was expected to violate CounterOK/PrefixOK, got %r" % res["mc_nocarry"].violated)
    for k in ("mc", "gen"):
        r = res[k]
        if not r.ok:      # a counterexample in the design model alone is never a verdict
            raise vlib.Infra("design model %s: %s violated:\n%s" % (k, r.violated, (r.cex or r.raw[-3000:])[:6000]))
        ctx.states += r.distinct
        ctx.transitions += r.generated
        ctx.log("%s: %d distinct states, %d TRACE lines, %.0fs" % (k, r.distinct, len(r.traces), r.wall))
    if res["mc"].coverage_zero:
        raise vlib.Infra("SalsaStream: actions never taken (vacuous model): %s" % res["mc"].coverage_zero)
    vecs = res["gen"].traces
    if len(vecs) < 30:
        raise vlib.Infra("PrimSalsa_Gen produced too few tables (%d)" % len(vecs))
    _third_opinion(ctx, vecs)
    if ctx.replay:
        ctx.notes.append("replay: the whole (deterministic, seeded) comparison is re-run; seed taken from VERIF_SEED")
    for path, tg in (("asm", "verif"), ("purego", "verif,purego")):
        r = ctx.go_test("c09", "TestSalsa", cases=vecs, tags=tg, timeout=1500, env={"VERIF_C09_PATH": path})
        ctx.log("compare %s: %d evaluations, %d violations" % (path, r.get("evaluations", 0), len(r.get("violations") or [])))
        ctx.absorb(r)
    ctx.exhaustive = False
    ctx.notes.append("lengths 0..2000 and the listed start counters are exhaustive; keys, nonces and input contents are sampled")
