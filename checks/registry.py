"""Registry of claimed checks -> MANIFEST.json (bin/mkmanifest).
A property is claimed iff checks/<ID>.py and checks/<ID>.claim.json both exist.  The claim file has
category (level), text, note (trusted base / assumptions), technique, design_ref."""
import glob, json, os
HERE = os.path.dirname(os.path.abspath(__file__))
CLAIMS = {}
for f in sorted(glob.glob(os.path.join(HERE, "C*.claim.json"))):
    CLAIMS[os.path.basename(f).split(".")[0]] = json.load(open(f))

NOT_APPLICABLE = {
 "C45": "Totality over every byte string is a fuzzing property; a TLA+ grammar model cannot speak for inputs outside the grammar. Grammar-derived inputs are exercised under C44/C46 as exploration only. See DESIGN.md §8 C45.",
}
NOT_BUILT_REASON = "check not built yet in this session (planned in DESIGN.md §8); not claimed until its check exists and is quiet on the unchanged tree"
