"""Registry of claimed checks -> MANIFEST.json (bin/mkmanifest).  One entry per property claimed."""
CLAIMS = {
 "C28": dict(
   category="model_checking", design_ref="DESIGN.md §8 C28",
   text=("TLC model-checks spec/SSHNegotiate.tla: the transcription of findCommon/findAgreedAlgorithms equals the declarative "
         "RFC 4253 7.1 rule and the client/server views mirror each other, exhaustively for all list pairs of length<=3 per slot, "
         "cipher x MAC interplay with AEAD names and whole-message products; every enumerated negotiation is then replayed on the "
         "real findAgreedAlgorithms for both roles (binding R) and compared with the model's prediction."),
   note=("Bounded lists (<=3 names, small alphabets incl. names unknown to the peer); names are opaque strings as in the code; "
         "trusted: TLC, the verif hook passing KEXINITs through Marshal/Unmarshal unchanged."),
   technique="TLA+ spec + TLC exhaustive enumeration; model-to-code replay of every enumerated negotiation"),
}

NOT_APPLICABLE = {
 "C15": "Argon2 byte-equality is a memory-hard numeric function with no state machine or decision structure for a TLA+ model to add to; an executable TLA+ transcription is impractical (>=10^6 limb ops per evaluation). See DESIGN.md §8 C15.",
 "C19": "bcrypt_pbkdf equality with OpenBSD is pure numeric differential testing (Blowfish-based); no state/decision structure to specify. See DESIGN.md §8 C19.",
 "C45": "Totality over every byte string is a fuzzing property; a TLA+ grammar model cannot speak for inputs outside the grammar. Grammar-derived inputs are exercised under C44/C46 as exploration only. See DESIGN.md §8 C45.",
}
NOT_BUILT_REASON = "check not built yet in this session (planned in DESIGN.md §8); not claimed until its check exists and is quiet on the unchanged tree"
