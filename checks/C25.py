"""C25 -- SSH packet ciphers round-trip every packet sequence with RFC-conformant framing.

Spec: spec/SSHPacket.tla (+ SSHPacket_MC).  TLC (a) model-checks the transcription of the four
writeCipherPacket padding computations against the framing rule of RFC 4253 6 / OpenSSH -etm /
RFC 5647 / chacha20-poly1305@openssh.com for every mode and payload length in a range, that the
readers' structural checks accept every packet the standards allow, sequence-number and
GCM-invocation-counter bookkeeping across wrap/carry, and delivery = written for interleaved
writers and readers; (b) emits single-packet behaviours for every mode x payload length and
sampled multi-packet behaviours near the 2^32 wrap, which harness/c25 replays on the real packet
ciphers: real writer -> INDEPENDENT decoder (standard library), real writer -> real reader,
independent encoder -> real reader, and key derivation (generateKeyMaterial) against RFC 4253 7.2."""
import c25_common as cc
import vlib


def run(ctx):
    ctx.level = "model_checking"
    ctx.rule = ("cases = behaviours of SSHPacket.tla emitted by TLC: every registered cipher x MAC mode (52 incl. none) x every payload "
                "length in 1..300 and maxPacket-21..maxPacket (thorough: 1..1200, maxPacket-28..maxPacket, powers of two up to 131072) as single-packet behaviours, plus seeded "
                "simulated behaviours of 3..6 packets with start sequence numbers 0 / 2^32-3..2^32-1 and GCM counters at carry "
                "boundaries; plus per mode independently encoded streams (random RFC-valid paddings) and key derivations for 4 hashes x 2 "
                "directions; distinct = distinct (mode, payload lengths, start seq, start counter)")
    ctx.assumptions = [
        "MACs, AEAD tags and ciphers are ideal in the model; the byte level is decided by the independent decoder/encoder in harness/c25/ref.go "
        "(Go standard library AES/DES/RC4/CTR/CBC/GCM/HMAC/SHA; golang.org/x/crypto/chacha20 block function; math/big Poly1305)",
        "hook ssh/verif_cipher.go forwards to cipherModes[..].create, newPacketCipher, read/writeCipherPacket and connectionState.read/writePacket unchanged",
        "sequence numbers are scaled (mod 8 / mod 16) in the model and mapped to the same distance below 2^32",
    ]
    q = not ctx.thorough
    jobs = [
        dict(cfg="FrameQ" if q else "Frame", kw=dict(workers=4), note="CodePad vs RFC framing, all modes, single packets"),
        dict(cfg="SeqQ" if q else "Seq", kw=dict(workers=4), note="interleaved writer/reader, seq wrap, GCM counter carry"),
        dict(cfg="GenFrameA" if q else "GenFrameBigA", gen=True, kw=dict(workers=1, timeout=2400)),
        dict(cfg="GenFrameB" if q else "GenFrameBigB", gen=True, kw=dict(workers=1, timeout=2400)),
        dict(cfg="GenFrameC" if q else "GenFrameBigC", gen=True, kw=dict(workers=1, timeout=2400)),
        dict(cfg="GenSeq", gen=True, kw=dict(workers=1, simulate=ctx.pick(200, 6000), depth=40)),
    ]
    if ctx.thorough:
        jobs += [
            dict(cfg="FrameRFC", kw=dict(workers=2), note="readers accept every RFC-valid padding"),
            dict(cfg="MaxPktFit", kw=dict(workers=2), note="scaled maxPacket: round trip whenever packet_length fits"),
            dict(cfg="MaxPkt", expect="RoundTrip", kw=dict(workers=1), note="design-level: payloads near maxPacket do not round-trip"),
            dict(cfg="FrameCBCEtM", kw=dict(workers=1), note="CBC x -etm MAC: -etm layout (length in clear, aligned without it), n in 1..300"),
        ]
        ctx.notes.append("design-level counterexample kept as an expected-violation run: RoundTrip for payloads whose packet_length exceeds maxPacket "
                         "(SSHPacket_MaxPkt.cfg); it is reproduced on the real code (known finding C25-F3)")
    else:
        ctx.skipped.append("quick tier: SSHPacket_FrameRFC / MaxPktFit / MaxPkt / FrameCBCEtM instances run in the thorough tier only")
    res = cc.par_tlc(ctx, jobs)
    table, frames = [], []
    for part in "ABC":
        tb, fr = cc.split_cases(res[("GenFrame" if q else "GenFrameBig") + part].traces)
        table = table or tb
        frames += fr
    _, seqs = cc.split_cases(res["GenSeq"].traces)
    seqs = [c for c in seqs if c.get("pkts")]
    if not table or not frames or not seqs:
        raise vlib.Infra("generator produced no behaviours")
    ctx.log("replaying %d single-packet and %d multi-packet behaviours" % (len(frames), len(seqs)))
    out = ctx.go_test("c25", "^TestC25$", cases=table + frames + seqs, timeout=2400)
    cc.check_table(out)
    ex = out.get("extra") or {}
    ctx.absorb(out)
    # exit 2 only when the real code wrote, decoded and round-tripped cleanly but the model predicted otherwise;
    # any rejection of the real writer's untampered output is recorded by the harness as a violation (verdict).
    if ex.get("model_delivery_mismatch") and not cc.unknown_violations("C25", out):
        raise vlib.Infra("the real code round-trips and decodes fine but the model predicted other deliveries (%s cases): fix the model" % ex["model_delivery_mismatch"])
    if ex.get("model_delivery_mismatch"):
        ctx.notes.append("model/code delivery prediction differs in %s clean cases (not a verdict; violations reported separately)" % ex["model_delivery_mismatch"])
    ctx.exhaustive = False
