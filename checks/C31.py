"""C31 — re-keying is transparent to concurrent application traffic.

Spec: spec/SSHRekey.tla — handshakeTransport's writePacket / kexLoop / readLoop, one action per
critical section.  TLC checks K1 (no application packet between a side's KEXINIT and NEWKEYS),
K2 (exactly once, per-writer order), K3 (bounded queue) and the liveness K4 / NoStuckWriter under
fairness, exhaustively on small constants.  Binding T: real handshakeTransport pairs (verif hooks:
recording keyingTransport + 'queued'/'kexdone' linearization points under t.mu) are driven by
concurrent writers/readers/re-keys; each recorded execution must be a behaviour of
SSHRekey_Trace.tla instantiated with the real constants."""
import json, os
import vlib

TRACE_CFG = """SPECIFICATION TraceSpec
CONSTANTS
  MaxPending = %d
  ChanSize = %d
  Writers = {1, 2, 3, 4, 5, 6, 7, 8}
  NPkts = 1000000
  MaxRekeys = 1000000
  Threshold = 1000000000
  PktLens = {1}
  ExtInfo = TRUE
INVARIANTS K1Wire K2State K3 QueueOnlyInKex
CONSTRAINT HWM
VIEW TraceView
POSTCONDITION TraceAccepted
CHECK_DEADLOCK FALSE
"""

def record(ctx, n, race=False):
    tf = ctx.tmp("c31_traces_%d.ndjson" % len(os.listdir(ctx.scratch)))
    res = ctx.go_test("c31", "TestRecord", env={"VERIF_N": n, "VERIF_TRACES": tf}, timeout=1500, race=race)
    traces, scen = [], []
    if os.path.exists(tf):
        for line in open(tf):
            d = json.loads(line)
            traces.append(d["events"]); scen.append(d["scenario"])
    return res, traces, scen

def run(ctx):
    ctx.rule = ("cases = recorded executions of a real client/server handshakeTransport pair under a seeded random scenario "
                "(1-4 writers per side, 3-70 packets each, RekeyThreshold in {256,1024,4096,default}, explicit re-keys from both sides, "
                "slow readers, goroutine yields; every 5th scenario stalls the peer's reader so that > maxPendingPackets writes pile up "
                "during a key exchange); distinct = distinct scenario parameter vectors; each execution is validated event by event "
                "against SSHRekey_Trace with the real maxPendingPackets/chanSize")
    ctx.assumptions = [
        "events are appended to one log under one lock: 'wire' at keyingTransport.writePacket entry, 'recv' after readPacket returns, "
        "'queued'/'kexdone' under handshakeTransport.mu, driver call/return/delivery events around the public calls",
        "the trace spec gives the application reader one extra slot (a packet taken from the incoming channel but not yet logged)",
        "when byte/packet thresholds fire is not part of the property: the trace spec lets a rekey request appear at any time",
        "liveness on real runs is judged at quiescence with a 45 s watchdog plus goroutine-dump classification; an unclassifiable stall is exit 2"]
    # 1. the design: exhaustive model checking
    ctx.tlc_must_hold("SSHRekey", cfg="SSHRekey_QS.cfg", timeout=1200, note="safety K1 K2 K3, 1 writer x 2 packets per side, queue 1, 1 explicit + threshold re-keys")
    ctx.tlc_must_hold("SSHRekey", cfg="SSHRekey_QL.cfg", timeout=1200, note="liveness K4/NoStuckWriter under fairness")
    if ctx.thorough:
        ctx.tlc_must_hold("SSHRekey", cfg="SSHRekey_Q.cfg", timeout=3000, note="safety+liveness, 1 writer x 2 packets")
        r = ctx.tlc("SSHRekey", cfg="SSHRekey_T.cfg", timeout=3000, simulate=20000, depth=200, workers=16, note="2 writers x 2 packets, queue 2: random simulation (exhaustive does not finish)")
        if not r.ok:
            raise vlib.Infra("SSHRekey_T simulation found a design-level counterexample: %s" % r.violated)
    # 2. the code: record and validate
    n = ctx.pick(40, 400)
    res, traces, scen = record(ctx, n)
    ctx.absorb(res, validated=False)
    if not traces:
        raise vlib.Infra("no traces recorded")
    mp, cs = int(res["extra"]["max_pending"]), int(res["extra"]["chan_size"])
    cfg = TRACE_CFG % (mp, cs + 1)
    ctx.extra["events_validated"] = sum(len(t) for t in traces)
    ctx.extra["max_pending_in_code"] = mp
    def describe(tr, idx):
        return ""
    # validate in batches to keep TLC runs short
    B = 50
    for b in range(0, len(traces), B):
        ctx.validate_traces_cfg = cfg
        _validate(ctx, traces[b:b + B], cfg)
    if ctx.thorough:
        res2, traces2, _ = record(ctx, 60, race=True)
        ctx.absorb(res2, validated=False)
        _validate(ctx, traces2, cfg)
        ctx.extra["events_validated"] += sum(len(t) for t in traces2)
    ctx.exhaustive = False

def _validate(ctx, traces, cfg):
    # validate_traces with a generated cfg: write it next to the spec via files=
    ctx.validate_traces("SSHRekey_Trace", traces, cfg="SSHRekey_Trace_real.cfg", files={"SSHRekey_Trace_real.cfg": cfg},
                        timeout=1500, sig_prefix="rekey-trace-rejected")
