"""C31 — re-keying is transparent to concurrent application traffic.

Spec: spec/SSHRekey.tla — handshakeTransport's writePacket / kexLoop / readLoop, one action per
critical section.  TLC checks K1 (no application packet between a side's KEXINIT and NEWKEYS),
K2 (exactly once, per-writer order), K3 (bounded queue) and the liveness K4 / NoStuckWriter under
fairness, exhaustively on small constants.  Binding T: real handshakeTransport pairs (verif hooks:
recording keyingTransport + 'queued'/'kexdone' linearization points under t.mu) are driven by
concurrent writers/readers/re-keys; each recorded execution must be a behaviour of
SSHRekey_Trace.tla instantiated with the real constants.

Bounded network: the model's byte stream has a per-direction capacity NetCap (a transport-level
write blocks while the pipe is full) and the post-kex completion is 'release readLoop' (its own
step) followed by the one-packet-per-step flush under mu.  SSHRekey_BS/BLq (and BL, BS2 in the
thorough tier) check no-deadlock and the liveness properties with NetCap = 1 (2);
SSHRekey_DocRAF (release moved behind the flush) must produce the dead-lock.  On the code the
scenario BothQueueBeyondPipe (harness/c31/c31_pipe_test.go) runs real handshakeTransport pairs over
a bounded in-memory conn (32 KiB per direction) with ~384 KiB queued on EACH side during a held
re-exchange."""
import concurrent.futures, json, os, re
import vlib

TRACE_CFG = """SPECIFICATION TraceSpec
CONSTANTS
  MaxPending = %d
  ChanSize = %d
  Writers = {1, 2, 3, 4, 5, 6, 7, 8}
  NPkts = 1000000
  MaxRekeys = 1000000
  Threshold = 1000000000
  PktLens = {1}
  ExtInfo = TRUE
  NetCap = 1000000000
  ReleaseAfterFlush = FALSE
INVARIANTS K1Wire K2State K3 QueueOnlyInKex
CONSTRAINT HWM
VIEW TraceView
POSTCONDITION TraceAccepted
CHECK_DEADLOCK FALSE
"""

def record(ctx, n, race=False):
    tf = ctx.tmp("c31_traces_%d.ndjson" % len(os.listdir(ctx.scratch)))
    res = ctx.go_test("c31", "TestRecord", env={"VERIF_N": n, "VERIF_TRACES": tf}, timeout=1500, race=race)
    traces, scen = [], []
    if os.path.exists(tf):
        for line in open(tf):
            d = json.loads(line)
            traces.append(d["events"]); scen.append(d["scenario"])
    return res, traces, scen

def pipe(ctx, n, race=False):
    """scenario BothQueueBeyondPipe on the bounded conn; returns (harness result, recorded traces)"""
    tf = ctx.tmp("c31_pipe_traces_%d.ndjson" % len(os.listdir(ctx.scratch)))
    res = ctx.go_test("c31", "TestBothQueueBeyondPipe", env={"VERIF_N": n, "VERIF_TRACES": tf}, timeout=900, race=race)
    traces = []
    if os.path.exists(tf):
        for line in open(tf):
            traces.append(json.loads(line)["events"])
    ex = res.get("extra") or {}
    dead = [v for v in (res.get("violations") or []) if v.get("sig", "").startswith("rekey-deadlock")]
    if ex.get("pipe_infra_stalls", 0) and not dead:
        raise vlib.Infra("BothQueueBeyondPipe: %d stall(s) that the goroutine dump does not classify as the dead-lock:\n%s"
                         % (ex["pipe_infra_stalls"], res.get("_stdout", "")[-3000:]))
    if not dead and not ex.get("pipe_completed", 0):
        raise vlib.Infra("BothQueueBeyondPipe: no run completed")
    # vacuity guard: both sides must really have had more queued bytes than the pipe holds when the exchange completed
    lim = int(ex.get("pipe_limit", 0))
    qc, qs = int(ex.get("pipe_min_queued_c", 0)), int(ex.get("pipe_min_queued_s", 0))
    if lim <= 0 or qc <= lim or qs <= lim:
        raise vlib.Infra("BothQueueBeyondPipe is vacuous: queued bytes at kexdone c=%d s=%d, pipe capacity %d" % (qc, qs, lim))
    return res, traces

def design(ctx):
    """TLC runs on the design, in parallel; a counterexample in the design alone is never a verdict"""
    jobs = {
        "QS": dict(cfg="SSHRekey_QS.cfg", workers=8, note="safety K1 K2 K3, 1 writer x 2 packets per side, queue 1, 1 explicit + threshold re-keys, unbounded network"),
        "QL": dict(cfg="SSHRekey_QL.cfg", workers=2, note="liveness K4/NoStuckWriter under fairness, unbounded network"),
        "BS": dict(cfg="SSHRekey_BS.cfg", workers=4, note="bounded network NetCap=1, queue 2, 2 packets per side: safety + NoDeadlock (ENABLED of every fair step unless all is done)"),
        "BLq": dict(cfg="SSHRekey_BLq.cfg", workers=2, note="bounded network NetCap=1, queue 1, 1 packet per side: liveness K4, NoStuckWriter, EveryWriteReturns, QueueDrains under fairness"),
        "DocRAF": dict(cfg="SSHRekey_DocRAF.cfg", workers=2, expect_violation=True,
                       note="documentation: release of readLoop moved behind the flush -> dead-lock (both flushes blocked on a full pipe)"),
    }
    if ctx.thorough:
        jobs.update({
            "Q": dict(cfg="SSHRekey_Q.cfg", workers=4, note="safety+liveness, 1 writer x 2 packets, unbounded network"),
            "T": dict(cfg="SSHRekey_T.cfg", workers=16, simulate=20000, depth=200, note="2 writers x 2 packets, queue 2: random simulation (exhaustive does not finish)"),
            "BL": dict(cfg="SSHRekey_BL.cfg", workers=4, note="bounded network NetCap=1, queue 2, 2 packets per side: liveness K4, NoStuckWriter, EveryWriteReturns, QueueDrains"),
            "BS2": dict(cfg="SSHRekey_BS2.cfg", workers=8, note="bounded network NetCap=2, queue 3, 3 packets per side: safety + NoDeadlock"),
            "DocRAFL": dict(cfg="SSHRekey_DocRAFL.cfg", workers=2, expect_violation=True,
                            note="documentation: release behind the flush -> K4 violated (liveness counterexample)"),
        })
    res = {}
    with concurrent.futures.ThreadPoolExecutor(max_workers=len(jobs)) as ex:
        futs = {k: ex.submit(ctx.tlc, "SSHRekey", timeout=3000, count=False, **kw) for k, kw in jobs.items()}
        for k, f in futs.items():
            res[k] = f.result()
    for k, r in res.items():
        ctx.log("%s: %d distinct states, %.0fs, violated=%s" % (k, r.distinct, r.wall, r.violated))
        if k == "DocRAF":
            last = re.findall(r'/\\ kx = \[s \|-> "(\w+)", c \|-> "(\w+)"\]', r.cex or "")
            if r.violated != "NoDeadlock" or not last or last[-1] != ("flushing", "flushing"):
                raise vlib.Infra("SSHRekey_DocRAF no longer produces the dead-lock with both kexLoops flushing (violated=%r, last kx=%r): "
                                 "the bounded-network model lost its discriminating power" % (r.violated, last[-1:] ))
            continue
        if k == "DocRAFL":
            if r.violated != "K4":
                raise vlib.Infra("SSHRekey_DocRAFL: K4 was expected to be violated, got %r" % r.violated)
            continue
        if not r.ok:
            raise vlib.Infra("design model SSHRekey/%s: %s violated (model-level counterexample, not reproduced on code):\n%s"
                             % (k, r.violated, (r.cex or r.raw[-3000:])[:6000]))
        ctx.states += r.distinct
        ctx.transitions += r.generated

def run(ctx):
    ctx.rule = ("cases = recorded executions of a real client/server handshakeTransport pair under a seeded random scenario "
                "(1-4 writers per side, 3-70 packets each, RekeyThreshold in {256,1024,4096,default}, explicit re-keys from both sides, "
                "slow readers, goroutine yields; every 5th scenario stalls the peer's reader so that > maxPendingPackets writes pile up "
                "during a key exchange); plus scenario BothQueueBeyondPipe on a bounded conn (32 KiB per direction): a re-exchange held open "
                "in the client's HostKeyCallback while each side queues 40-63 packets of 4-12 KiB (base case 48 x 8 KiB), then released, both "
                "applications reading, one more writePacket per side after the exchange; distinct = distinct scenario parameter vectors; "
                "each execution is validated event by event against SSHRekey_Trace with the real maxPendingPackets/chanSize")
    ctx.assumptions = [
        "events are appended to one log under one lock: 'wire' at keyingTransport.writePacket entry, 'recv' after readPacket returns, "
        "'queued'/'kexdone' under handshakeTransport.mu, driver call/return/delivery events around the public calls",
        "the trace spec gives the application reader one extra slot (a packet taken from the incoming channel but not yet logged)",
        "when byte/packet thresholds fire is not part of the property: the trace spec lets a rekey request appear at any time",
        "liveness on real runs is judged at quiescence with a 45 s (25 s in BothQueueBeyondPipe) watchdog plus goroutine-dump classification; "
        "an unclassifiable stall is exit 2",
        "the model's pipe capacity counts packets (NetCap = 1 or 2), the harness conn counts bytes (32 KiB): both mean 'less than one side's queue'",
        "'wire' is logged at writePacket entry, before conn.Write can block: the trace spec keeps an unbounded wire also for the bounded-conn "
        "scenario, whose blocking behaviour is judged at property level (delivery, order, writePacket returns) by the driver"]
    # 1. the design: exhaustive model checking
    design(ctx)
    # 2. the code: record and validate
    n = ctx.pick(40, 400)
    res, traces, scen = record(ctx, n)
    ctx.absorb(res, validated=False)
    if not traces:
        raise vlib.Infra("no traces recorded")
    mp, cs = int(res["extra"]["max_pending"]), int(res["extra"]["chan_size"])
    cfg = TRACE_CFG % (mp, cs + 1)
    ctx.extra["events_validated"] = sum(len(t) for t in traces)
    ctx.extra["max_pending_in_code"] = mp
    def describe(tr, idx):
        return ""
    # validate in batches to keep TLC runs short
    B = 50
    for b in range(0, len(traces), B):
        ctx.validate_traces_cfg = cfg
        _validate(ctx, traces[b:b + B], cfg)
    # 3. the code on a bounded byte stream: both sides queue more than the pipe holds during one re-exchange
    pres, ptraces = pipe(ctx, ctx.pick(6, 24))
    ctx.absorb(pres, validated=False)
    _validate(ctx, ptraces, cfg)
    ctx.extra["events_validated"] += sum(len(t) for t in ptraces)
    if ctx.thorough:
        pres2, ptraces2 = pipe(ctx, 6, race=True)
        pres2["extra"] = {}
        ctx.absorb(pres2, validated=False)
        _validate(ctx, ptraces2, cfg)
        ctx.extra["events_validated"] += sum(len(t) for t in ptraces2)
    if ctx.thorough:
        res2, traces2, _ = record(ctx, 60, race=True)
        ctx.absorb(res2, validated=False)
        _validate(ctx, traces2, cfg)
        ctx.extra["events_validated"] += sum(len(t) for t in traces2)
    ctx.exhaustive = False

def _validate(ctx, traces, cfg):
    # validate_traces with a generated cfg: write it next to the spec via files=
    ctx.validate_traces("SSHRekey_Trace", traces, cfg="SSHRekey_Trace_real.cfg", files={"SSHRekey_Trace_real.cfg": cfg},
                        timeout=1500, sig_prefix="rekey-trace-rejected")
