"""C42 -- known_hosts decisions match OpenSSH semantics.

Spec: spec/KnownHosts.tla (+ KnownHosts_MC/MCL/MCF; root modules KnownHosts_MCQ quick, KnownHosts_MCBig thorough).  TLC (a) checks that the transcription of
the package's algorithm (wildcardMatch, hostPatterns.match, hashedHost.match, checkAddr, check,
IsHostAuthority/IsRevoked as wired by knownhosts.New) decides exactly as the declarative definition
(Wild by "exists a split"; a line matches iff a positive pattern matches and no negated one does, on host
and port; RevokedError / accept / KeyError with exactly the matching lines) for every enumerated file
and query, plus AcceptSound, RevokedDominates, WantExact, OrderIndependent, RemoteIrrelevant and the
Normalize/Line/HashHostname round trip; (b) emits every enumerated file with the declarative decision
for every query.  Binding R: harness/c42 materialises each file with real keys/certificates, loads it
with the real knownhosts.New and compares the real callback's answers; ssh-keygen -F judges the matching
lines; a Go reference of the declarative definition (validated against the TLC predictions of the same
run) judges random files of 1..20 lines."""
import concurrent.futures as cf
import json
import vlib

MCQ = "KnownHosts_MCQ"
BIG = "KnownHosts_MCBig"


def _par(ctx, jobs, max_parallel=6):
    """jobs: dicts {name, module, cfg, expect (None | invariant expected to be violated), emit(bool), workers}."""
    def one(j):
        return ctx.tlc(j["module"], cfg="KnownHosts_%s.cfg" % j["cfg"], count=False, workers=j.get("workers", 8),
                       expect_violation=bool(j.get("expect")), timeout=j.get("timeout", 1500), note=j.get("note", ""))
    res, errs = {}, []
    with cf.ThreadPoolExecutor(max_workers=max_parallel) as ex:
        futs = {j["cfg"]: ex.submit(one, j) for j in jobs}
        for j in jobs:
            try:
                res[j["cfg"]] = futs[j["cfg"]].result()
            except vlib.Infra as e:
                errs.append(str(e))
    if errs:
        raise vlib.Infra("; ".join(errs)[:6000])
    for j in jobs:
        r = res[j["cfg"]]
        if j.get("expect"):
            if r.violated != j["expect"]:
                raise vlib.Infra("KnownHosts/%s: expected the documented design-level counterexample to %s, TLC says violated=%r"
                                 % (j["cfg"], j["expect"], r.violated))
        elif not r.ok:
            raise vlib.Infra("design model KnownHosts/%s: %s violated (model-level counterexample, not reproduced on code):\n%s"
                             % (j["cfg"], r.violated or "postcondition", (r.cex or r.raw[-3000:])[:6000]))
        else:
            ctx.states += r.distinct
            ctx.transitions += r.generated
        ctx.log("TLC %-14s %9d generated %9d distinct %6.1fs%s%s" % (
            j["cfg"], r.generated, r.distinct, r.wall,
            "  (expected counterexample: %s)" % r.violated if j.get("expect") else "",
            "  %d records emitted" % len(r.traces) if j.get("emit") else ""))
    return res


def _cases(r, want):
    """TRACE records of one run: the query list of each family first, then the files.  want: {family: number of files}."""
    qs, fs = {}, []
    for t in r.traces:
        if "queries" in t:
            qs[t["fam"]] = t
        elif "f" in t:
            fs.append(t)
    for fam, n in want.items():
        got = sum(1 for t in fs if t["fam"] == fam)
        if fam not in qs or got != n:
            raise vlib.Infra("generator emitted %d files of family %s (query list: %s), expected %d" % (got, fam, fam in qs, n))
    return [qs[f] for f in want] + [t for t in fs if t["fam"] in want]


def run(ctx):
    ctx.level = "model_checking"
    ctx.rule = ("cases = (known_hosts file, query) pairs: files enumerated by TLC from KnownHosts_MC (W: every single pattern of "
                "length<=3 (thorough 4) over {a,b,.,*,?} x every host of length<=3 (4); L: one line with every list of <=2 signed "
                "patterns (negation x wildcard x port) x markers; F: every file of <=2 lines (thorough: + 3 lines over a reduced menu) "
                "over 54 lines (8 pattern shapes incl. hashed and bracketed x markers none/@cert-authority/@revoked x 3 keys)) x "
                "queries (hostname or none, remote address, plain keys and certificates); plus seeded random files of 1..20 lines "
                "judged by the Go reference validated against TLC in the same run; plus ssh-keygen -F lookups. "
                "distinct = distinct (file, query) with at least one matching line or a non-KeyError answer")
    ctx.assumptions = [
        "HMAC-SHA1 collision freedom (hashed entries compared as the normalised text), Go standard library net.SplitHostPort/crypto",
        "certificates in the queries are well-formed host certificates without principals/critical options and unlimited validity "
        "(CheckCert's other clauses belong to C41)",
        "OpenSSH comparison restricted to the domain where its string-level lookup of \"[host]:port\" coincides with host-and-port "
        "matching (lines with an unbracketed wildcard pattern that string-matches the bracketed name are skipped for ssh-keygen)",
    ]
    if ctx.replay:
        rp = json.load(open(ctx.replay))
        d = (rp.get("violation") or {}).get("detail") or {}
        if "model_file" in d and "query" in d:
            cases = [{"queries": [d["query"]]},
                     {"f": d["model_file"], "d": [{"t": d["want"]["t"], "w": d["want"].get("w") or [], "y": ""}], "o": []}]
            res = ctx.go_test("c42", "TestReplay", cases=cases, timeout=600, env={"VERIF_KEYGEN_BUDGET": "0"})
            ctx.absorb(res)
            return
    T = ctx.thorough
    # one TLC run explores the three quick families (W: 156 files, L: 1200, F: 2971), each with its own query list
    jobs = [dict(module=MCQ, cfg="Q", emit={"W": 156, "L": 1200, "F": 2971}, workers=16)]
    if T:
        jobs += [
            dict(module=BIG, cfg="T", emit={"WB": 780, "F3": 5832}, workers=16),
            # documentation only: the code before the repairs f023288 / ff86183 and the OpenSSH reading of
            # @cert-authority lines; TLC must still find these counterexamples, the code is not expected to show them
            dict(module=MCQ, cfg="WOld", expect="WildAgree", workers=2,
                 note="documentation: former wildcardMatch (StarFix=FALSE): trailing '*' vs exhausted host"),
            dict(module=MCQ, cfg="L2Old", expect="Agree", workers=2, note="documentation: former wildcardMatch at file level"),
            dict(module=MCQ, cfg="SubjectOld", expect="Agree", workers=2,
                 note="documentation: former IsRevoked (SubjectFix=FALSE): a certificate whose subject key is @revoked is accepted"),
            dict(module=MCQ, cfg="DocCA", expect="Agree", workers=2,
                 note="OpenSSH reading: @cert-authority lines do not list plain host keys (the package accepts them)"),
        ]
    # TLC runs in a thread; meanwhile the drivers that need no TLC output (round trip, random files) run here
    with cf.ThreadPoolExecutor(max_workers=1) as ex:
        fut = ex.submit(_par, ctx, jobs)
        kg = {"VERIF_KEYGEN_BUDGET": str(ctx.pick(80, 600)), "VERIF_KEYGEN_EVERY": str(ctx.pick(6, 8))}
        res2 = ctx.go_test("c42", "TestModelIndependent", timeout=1800, env=kg)
        ctx.absorb(res2)
        ex2 = res2.get("extra") or {}
        ctx.log("round trip: %d address forms (%d ssh-keygen lookups); random files: %d files, %d evaluations; %d ssh-keygen lookups in all"
                % (ex2.get("roundtrip_evaluations", 0), ex2.get("roundtrip_ssh_keygen_runs", 0), ex2.get("files", 0),
                   res2.get("evaluations", 0) - ex2.get("roundtrip_evaluations", 0), ex2.get("ssh_keygen_runs", 0)))
        results = fut.result()
    cases = []
    for j in jobs:
        if j.get("emit"):
            cases += _cases(results[j["cfg"]], j["emit"])
    kg = {"VERIF_KEYGEN_BUDGET": str(ctx.pick(120, 800)), "VERIF_KEYGEN_EVERY": str(ctx.pick(25, 12))}
    res = ctx.go_test("c42", "TestReplay", cases=cases, timeout=1800, env=kg)
    ctx.absorb(res)
    ex1 = res.get("extra") or {}
    ctx.log("replay: %d files, %d evaluations, %d ssh-keygen lookups, %d hits of the trailing-star defect, %d of the revoked-subject defect"
            % (ex1.get("files", 0), res.get("evaluations", 0), ex1.get("ssh_keygen_runs", 0), ex1.get("star_defect_hits", 0),
               ex1.get("revoked_subject_hits", 0)))
    ctx.extra["ssh_keygen_runs"] = ex1.get("ssh_keygen_runs", 0) + ex2.get("ssh_keygen_runs", 0)
    ctx.extra["reference_validated_on"] = ex1.get("reference_validated_on", 0)
    if not ex1.get("ssh_keygen_available", False):
        ctx.skipped.append("ssh-keygen not installed: the OpenSSH lookup comparison (ssh-keygen -F) was skipped")
    ctx.notes.append("observations outside the verdict (the property text reads like the package; OpenSSH differs): (1) a plain host key equal "
                     "to the CA key of a matching @cert-authority line is accepted and such lines appear in KeyError.Want (KnownHosts_DocCA.cfg); "
                     "(2) an unbracketed wildcard pattern such as * only covers port 22 (OpenSSH matches it against the string [host]:port, so "
                     "@cert-authority * applies to every port there); (3) @revoked lines revoke for every host, their host patterns are ignored; (4) for certificates "
                     "the failures are plain errors of ssh.CertChecker, not KeyError/RevokedError: only accept/reject is compared for certificates; "
                     "(5) with a non-empty hostname only the hostname is checked, the remote address only when the hostname is empty")
    ctx.exhaustive = True
