"""C27 — the Go SSH server interoperates with the OpenSSH client for every mutually supported algorithm.

Scope: `sshd` is not installed, so only the direction "OpenSSH client -> Go server" is decided here;
"Go client -> OpenSSH server" is excluded (claim note).  mlkem768x25519-sha256 is not offered by
OpenSSH 9.2 (covered by C29 only).

Specs
  spec/SSHInterop.tla        server-side projection of the transport protocol (one-sided monitor): per direction
                             KEXINIT kexmsg+ NEWKEYS shape, first packet KEXINIT, nothing of the service/auth/connection
                             layers before the first NEWKEYS or between a side's KEXINIT and its NEWKEYS (K1 both ways),
                             connection protocol only after USERAUTH_SUCCESS, causal order of the two directions, number
                             of completed re-keys.
  spec/SSHInterop_Proto.tla  two-party abstraction (Go handshakeTransport x RFC-conformant foreign client) composed with
                             the monitor; TLC: no rule flagged on any interleaving, no deadlock, counters consistent;
                             and K1Out IS flagged when the server stops queueing during a key exchange.
  spec/SSHInterop_MC.tla     the configuration space: rows (kex, hostkey, cipher, mac, usersig, rekey initiator, payload
                             class); Full = kex x hostkey x cipher/MAC pairs, Pairwise, Each, Quick; coverage ASSUMEs.
  spec/SSHInterop_Trace.tla  binding T: recorded server-side packet traces must be accepted by the monitor.

Binding: checks/C27.py derives the mutually supported lists from `ssh -Q` and from the package (harness TestLists),
instantiates SSHInterop_MC with the real names, lets TLC enumerate the rows, and harness/c27 TestInterop runs one real
`ssh` connection per row against a real Go server on loopback (ssh.VerifNewServerConnRecorded).  Verdict per row =
OpenSSH exit status 0 AND echoed bytes equal (direct observation) AND trace accepted by TLC."""
import json, os, re, subprocess
import vlib

FAMILY = re.compile(r"^(ssh-ed25519|ecdsa-sha2-nistp(256|384|521)|rsa-sha2-(256|512)|ssh-rsa)(-cert-v01@openssh\.com)?$")
KEX_FAMILY = re.compile(r"^(curve25519-sha256(@libssh\.org)?|mlkem768x25519-sha256|ecdh-sha2-nistp(256|384|521)|"
                        r"diffie-hellman-group(1|14|16)-sha(1|256|512)|diffie-hellman-group-exchange-sha(1|256))$")
REKEYS = ["client", "server", "both"]
SIZES = ["zero", "one", "small", "medium", "large", "max"]


def ssh_q(what):
    p = subprocess.run(["ssh", "-Q", what], capture_output=True, text=True, timeout=60)
    if p.returncode != 0:
        raise vlib.Infra("ssh -Q %s failed: %s" % (what, p.stderr))
    return [l.strip() for l in p.stdout.splitlines() if l.strip()]


def tla_seq(names):
    return "<<" + ", ".join('"%s"' % n for n in names) + ">>"


def derive_lists(ctx):
    """Mutually supported = what `ssh -Q` lists, what the package implements, and what the property names."""
    q = {k: ssh_q(k) for k in ("kex", "cipher", "cipher-auth", "mac", "HostKeyAlgorithms", "PubkeyAcceptedAlgorithms")}
    res = ctx.go_test("c27", "TestLists", timeout=600,
                      env={"VERIF_C27_CANDIDATES": json.dumps({"kex": q["kex"], "cipher": q["cipher"], "mac": q["mac"]})})
    ex = res["extra"]
    L = {
        "kex": [k for k in ex["probe_kex"] or [] if KEX_FAMILY.match(k)],
        "cipher": list(ex["probe_cipher"] or []),
        "mac": list(ex["probe_mac"] or []),
        "hostkey": [h for h in q["HostKeyAlgorithms"] if h in ex["pkg_hostkey"] and FAMILY.match(h)],
        "usersig": [h for h in q["PubkeyAcceptedAlgorithms"] if h in ex["pkg_pubkey"] and FAMILY.match(h) and "-cert-" not in h],
    }
    L["aead"] = [c for c in L["cipher"] if c in q["cipher-auth"]]
    excluded = {
        "kex_only_package": sorted(set(ex["pkg_kex"]) - set(q["kex"])),
        "kex_only_openssh": sorted(set(q["kex"]) - set(ex["probe_kex"] or [])),
        "cipher_only_package": sorted(set(ex["pkg_cipher"]) - set(q["cipher"])),
        "cipher_only_openssh": sorted(set(q["cipher"]) - set(L["cipher"])),
        "mac_only_openssh": sorted(set(q["mac"]) - set(L["mac"])),
        "hostkey_common_but_outside_property": sorted(h for h in q["HostKeyAlgorithms"] if h in ex["pkg_hostkey"] and not FAMILY.match(h)),
        "pubkey_common_but_outside_property": sorted(h for h in q["PubkeyAcceptedAlgorithms"] if h in ex["pkg_pubkey"] and not FAMILY.match(h)),
    }
    for k in ("kex", "cipher", "mac", "hostkey", "usersig"):
        if not L[k]:
            raise vlib.Infra("no mutually supported %s algorithm derived (ssh -Q / package lists): %r" % (k, L))
    return L, excluded


def gen_rows(ctx, L, tier):
    mod = ("---- MODULE SSHInterop_MCreal ----\nEXTENDS SSHInterop_MC\n"
           "rKexL == %s\nrHostL == %s\nrCipherL == %s\nrMacL == %s\nrUserL == %s\nrRekeyL == %s\nrSizeL == %s\nrAeadS == {%s}\n====\n"
           % (tla_seq(L["kex"]), tla_seq(L["hostkey"]), tla_seq(L["cipher"]), tla_seq(L["mac"]), tla_seq(L["usersig"]),
              tla_seq(REKEYS), tla_seq(SIZES), ", ".join('"%s"' % a for a in L["aead"])))
    cfg = ("SPECIFICATION Spec\nCONSTANTS\n  KexL <- rKexL\n  HostL <- rHostL\n  CipherL <- rCipherL\n  MacL <- rMacL\n  UserL <- rUserL\n"
           "  RekeyL <- rRekeyL\n  SizeL <- rSizeL\n  AeadS <- rAeadS\n  Tier = \"%s\"\n  Seed = %d\nINVARIANT Emit\nCHECK_DEADLOCK FALSE\n"
           % (tier, ctx.seed % 1000))
    r = ctx.tlc_must_hold("SSHInterop_MCreal", cfg="SSHInterop_MCreal.cfg", workers=1, timeout=900,
                          files={"SSHInterop_MCreal.tla": mod, "SSHInterop_MCreal.cfg": cfg},
                          note="configuration space with the real algorithm names, tier %s (coverage ASSUMEs evaluated)" % tier)
    rows = r.traces
    if not rows:
        raise vlib.Infra("TLC enumerated no configuration")
    for i, c in enumerate(rows):
        c["id"] = i + 1
    return rows


def run_rows(ctx, L, rows, par):
    resf = ctx.tmp("c27_results_%d.ndjson" % len(os.listdir(ctx.scratch)))
    res = ctx.go_test("c27", "TestInterop", cases=rows, timeout=ctx.pick(900, 2400),
                      env={"VERIF_C27_RESULTS": resf, "VERIF_C27_PUBKEYALGOS": json.dumps(L["usersig"]), "VERIF_C27_PAR": par})
    ctx.absorb(res, validated=False)
    results = [json.loads(l) for l in open(resf)] if os.path.exists(resf) else []
    os.path.exists(resf) and os.unlink(resf)
    if (res.get("extra") or {}).get("infra"):
        inf = res["extra"]["infra"]
        raise vlib.Infra("%d connections ended without an observation (never a verdict), first: %s" % (len(inf), inf[0][:1500]))
    if len(results) != len(rows):
        raise vlib.Infra("harness returned %d results for %d configurations" % (len(results), len(rows)))
    return res, results


def validate(ctx, results):
    """Trace validation (binding T) of every recorded connection, in up to four concurrent TLC runs (one worker each);
    each run works on a private copy of the counters, merged afterwards."""
    import copy
    from concurrent.futures import ThreadPoolExecutor
    ctx.extra["events_validated"] = ctx.extra.get("events_validated", 0) + sum(len(r["events"]) for r in results)
    B = max(200, (len(results) + 3) // 4)
    batches = [results[b:b + B] for b in range(0, len(results), B)]

    def work(batch):
        sub = copy.copy(ctx)
        sub.violations, sub.tlc_runs, sub.states, sub.transitions, sub.traces_validated = [], [], 0, 0, 0
        sub.validate_traces("SSHInterop_Trace", [r["events"] for r in batch], timeout=1500, sig_prefix="interop-trace-rejected")
        # make each violation say which configuration the rejected trace belongs to
        for v in sub.violations:
            d = v.get("detail") or {}
            tr = d.get("trace") or [{}]
            for r in batch:
                if r["case"]["id"] == tr[-1].get("id"):
                    c = r["case"]
                    v["sig"] = "%s:%s:%s+%s+%s+%s" % (v["sig"].split(":")[0], d.get("invariant") or v["sig"].split(":")[-1],
                                                      c["kex"], c["hostkey"], c["cipher"], c["mac"])
                    v["what"] += " (configuration %s)" % json.dumps(c, sort_keys=True)
                    d["case"] = c
                    break
        return sub
    with ThreadPoolExecutor(max_workers=4) as pool:
        subs = list(pool.map(work, batches))
    for sub in subs:
        ctx.violations += sub.violations
        ctx.tlc_runs += sub.tlc_runs
        ctx.states += sub.states
        ctx.transitions += sub.transitions
        ctx.traces_validated += sub.traces_validated


def corruption_selftest(ctx, results):
    """Binding demonstration: a recorded, accepted trace in which one echoed data packet is moved into the server's own
    KEXINIT..NEWKEYS window must be rejected with K1Out (never a verdict: exit 2 if the trace spec lets it through)."""
    for r in results:
        ev = r["events"]
        if not (r["exit"] == 0 and r["equal"] and r["rekeys"] >= 1):
            continue
        inits = [i for i, e in enumerate(ev) if e["ev"] == "wire" and e["ty"] == 20]
        if len(inits) < 2:
            continue
        k = inits[1]
        nk = next((i for i in range(k, len(ev)) if ev[i]["ev"] == "wire" and ev[i]["ty"] == 21), None)
        if nk is None:
            continue
        bad = ev[:nk] + [{"ev": "wire", "ty": 94, "c": 1, "n": 100, "ok": 0, "min": 0, "id": 0}] + ev[nk:]
        lines = [json.dumps({"ev": "reset", "trace": 0})] + [json.dumps(e, separators=(",", ":")) for e in bad]
        t = ctx.tlc("SSHInterop_Trace", workers=1, timeout=600, files={"trace.ndjson": "\n".join(lines) + "\n"}, expect_violation=True,
                    count=False, note="selftest: recorded trace with a data packet moved between the server's KEXINIT and NEWKEYS must be rejected")
        if t.violated != "K1Out":
            raise vlib.Infra("corruption selftest: the trace spec did not reject a K1-violating trace (got %r)" % t.violated)
        ctx.notes.append("selftest: a recorded trace corrupted by one application packet inside the server's key exchange is rejected (K1Out)")
        return
    raise vlib.Infra("corruption selftest: no recorded trace with a completed re-key to corrupt")


def run(ctx):
    ctx.level = "model_checking"
    if not ctx.have("ssh") or not ctx.have("ssh-keygen"):
        raise vlib.Infra("ssh / ssh-keygen not installed: C27 needs the OpenSSH client as the foreign peer")
    ctx.assumptions = [
        "direction decided: OpenSSH 9.2 client -> Go server only (no sshd in the sandbox); trusted base: ssh, ssh-keygen, the loopback TCP stack",
        "the server is built by hook ssh.VerifNewServerConnRecorded, a statement-by-statement copy of NewServerConn/serverHandshake whose only "
        "difference is the recording keyingTransport; everything below and above it (handshake.go, kex.go, transport.go, cipher.go, keys.go, "
        "server auth, mux, channels) is the real code",
        "trace events are appended to one log under one lock: 'recv' after readPacket returns and before the packet is acted on, 'wire' before the "
        "packet is written, so causal order between the directions is preserved; consecutive packets of one direction and type are run-length encoded",
        "lower bound on re-keys: only for re-keys forced by the OpenSSH client's RekeyLimit=16K (payload/64KiB, deterministic in packet.c); "
        "server-initiated re-keys are asynchronous (kexLoop) and only required to occur somewhere in the run (else exit 2)",
    ]
    # ---- 1. the design: TLC on the two-party abstraction and on the configuration-space definitions.  These runs do not
    # depend on the code, so they proceed in a thread (private counters, merged at the end) while the connections run.
    import copy, threading
    dsub = copy.copy(ctx)
    dsub.tlc_runs, dsub.states, dsub.transitions = [], 0, 0
    derr = []

    def design():
        try:
            design_checks(dsub)
        except BaseException as e:      # re-raised in the main thread
            derr.append(e)
    dth = threading.Thread(target=design)
    dth.start()
    try:
        code_checks(ctx)
    finally:
        dth.join()
    if derr:
        raise derr[0]
    ctx.tlc_runs = dsub.tlc_runs + ctx.tlc_runs
    ctx.states += dsub.states
    ctx.transitions += dsub.transitions


def design_checks(ctx):
    r = ctx.tlc_must_hold("SSHInterop_Proto", cfg="SSHInterop_Proto.cfg", timeout=900, coverage=True, workers=4,
                          note="Go handshakeTransport x foreign client x monitor: no rule flagged, counters consistent, no deadlock")
    unused = [a for a in r.coverage_zero if a not in ("Stutter",)]
    if unused:
        raise vlib.Infra("SSHInterop_Proto: actions never taken (vacuous model): %s" % unused)
    if ctx.thorough:
        r = ctx.tlc("SSHInterop_Proto", cfg="SSHInterop_ProtoNoQueue.cfg", timeout=900, expect_violation=True, count=False, workers=4,
                    note="sanity: a server that does not queue during its key exchange must break K1Out")
        if r.violated != "K1Out":
            raise vlib.Infra("SSHInterop_ProtoNoQueue: expected the monitor to flag K1Out, got %r" % r.violated)
        ctx.tlc_must_hold("SSHInterop_Proto", cfg="SSHInterop_ProtoBig.cfg", timeout=1800, workers=4, note="3 data packets, 2 spontaneous re-keys per side")
        for t in ("quick", "pairwise"):
            ctx.tlc_must_hold("SSHInterop_MCsmall", cfg="SSHInterop_MCsmall_%s.cfg" % t, workers=1, timeout=600, count=False,
                              note="abstract instance of the configuration space: coverage ASSUMEs")


def code_checks(ctx):
    # ---- 2. the configuration lists and the rows
    L, excluded = derive_lists(ctx)
    ctx.extra["lists"] = L
    ctx.extra["excluded"] = excluded
    ctx.log("mutual lists: %d kex, %d host key algs, %d ciphers (%d AEAD), %d MACs, %d user signature algs"
            % (len(L["kex"]), len(L["hostkey"]), len(L["cipher"]), len(L["aead"]), len(L["mac"]), len(L["usersig"])))
    if ctx.replay:
        with open(ctx.replay) as fh:
            rp = json.load(fh)
        c = ((rp.get("violation") or {}).get("detail") or {}).get("case")
        if not c:
            raise vlib.Infra("replay file has no configuration")
        # scheduling on a real socket is not reproducible: run the configuration several times
        rows = [dict(c, id=i + 1) for i in range(8)]
    else:
        rows = gen_rows(ctx, L, os.environ.get("VERIF_C27_TIER") or ("full" if ctx.thorough else "quick"))
        if ctx.thorough:
            # the pairwise claim about the sub-design (informational: Full contains it anyway)
            try:
                gen_rows(ctx, L, "pairwise")
                ctx.notes.append("TLC established that the Pairwise row set (host key x cipher/MAC with Latin-square kex, user key, re-key initiator, "
                                 "payload class) covers every pair of values of any two coordinates; Full contains it")
            except vlib.Infra as e:
                ctx.notes.append("pairwise-coverage claim not established for the current list sizes: %s" % str(e)[:300])
    ctx.log("%d configurations" % len(rows))
    ctx.rule = ("cases = configurations (kex, host key algorithm, cipher, MAC ('-' for AEAD ciphers), user signature algorithm, re-key initiator, "
                "payload class) enumerated by TLC from SSHInterop_MC instantiated with the mutually supported lists derived at run time from `ssh -Q` "
                "and the package; quick = Each + a seed-dependent seventh of Pairwise (every value of every coordinate and every cipher/MAC pair), "
                "thorough = full cross product kex x hostkey x cipher/MAC with the other three coordinates Latin-square assigned; one real ssh "
                "connection per configuration with a seeded payload of the class's size; distinct = distinct configurations")

    # ---- 3. the code: one real OpenSSH connection per row, then trace validation
    par = os.environ.get("VERIF_C27_PAR", "16")
    res, results = run_rows(ctx, L, rows, par)
    validate(ctx, results)
    if ctx.thorough and not ctx.replay:
        corruption_selftest(ctx, results)
    ex = res.get("extra") or {}
    ok = ex.get("connections_ok", 0)
    ctx.log("connections ok %d / %d, re-keys completed %d (server-initiated %d, client-initiated %d), failures %s"
            % (ok, len(rows), ex.get("rekeys_completed", 0), ex.get("rekeys_server_initiated", 0), ex.get("rekeys_client_initiated", 0),
               json.dumps(ex.get("failures_by_signature") or {})))
    if not ctx.replay and not ctx.violations:
        # vacuity guards: never a verdict, and never in the way of one (a defect that kills every re-key
        # also empties the re-key counters; the recorded violations are then the result of the run)
        if ok == 0:
            raise vlib.Infra("no connection succeeded at all: harness or environment trouble, not a verdict:\n%s" % res.get("_stdout", "")[-2000:])
        if ex.get("rekeys_client_initiated", 0) == 0 or ex.get("rekeys_server_initiated", 0) == 0:
            raise vlib.Infra("re-keying was not exercised (client-initiated %s, server-initiated %s)"
                             % (ex.get("rekeys_client_initiated"), ex.get("rekeys_server_initiated")))
    ctx.exhaustive = bool(ctx.thorough and not ctx.replay and not os.environ.get("VERIF_C27_TIER"))
    ctx.notes.append("excluded by derivation: " + json.dumps(excluded, sort_keys=True))
    ctx.notes.append("clause excluded: 'a Go client connects to an OpenSSH server' (sshd is not installed); mlkem768x25519-sha256 is not offered by "
                     "OpenSSH 9.2 and is covered by C29 only")
