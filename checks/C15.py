"""C15 - Argon2i/Argon2id equal RFC 9106 for all parameters.

Specs: spec/PrimArgon2.tla (executable RFC 9106: H_0, variable-length hash H', G with the permutation P and the BlaMka
GB on 16-bit limbs, address blocks, reference area, pass/slice/lane schedule, final XOR), spec/Argon2Area.tla (the
reference area as arithmetic), spec/Argon2Index.tla (state machine of the memory matrix filled by concurrently
running lanes; checks indexAlpha/phi's arithmetic and Argon2Area against the RFC's reference set W listed from the
blocks actually written, plus race freedom), spec/Argon2_Vec.tla (TLC-evaluated table; invariant Published = the
RFC 9106 section 5 vectors).

TLC (a) evaluates the table (tags of Argon2i/Argon2id over small parameter classes, the three RFC vectors, G blocks,
H' outputs, reference-block tables); (b) model-checks Argon2Index exhaustively for small (lanes, segment length,
passes).  The Go harness validates its transcription harness/c15ref against every TLC value, compares the real
argon2.Key/IDKey, processBlock/processBlockXOR, blake2bHash, indexAlpha with the TLC values, and judges a seeded grid
by the validated transcription - on the SSE4.1 assembly, on the SSE2 + Go rounds path, on processBlockGeneric, and on
the purego build.  The reference C implementation (libargon2) is consulted as a third opinion where it accepts the
parameters."""
import concurrent.futures, json
import vlib
from c15_common import write_ndjson, libargon2_opinion, warm_build


def run(ctx):
    ctx.level = "model_checking"
    ctx.rule = ("cases = (function Key|IDKey, block-function path, time, memory, threads, key length, password, salt): (1) TLC-evaluated table "
                "(spec/Argon2_Vec.tla): quick 15 / thorough ~220 parameter sets (time 1..3; memory m<8p, 8p, non-multiples of 4p, 12p, 16p, one of 516 blocks; "
                "threads 1..4 and 7; key lengths 1..300 incl. 4,16,32,64,65,100; password/salt lengths 0..200) x both types, plus G blocks, H' outputs and "
                "reference-block tables (lanes 1..3 x segment length 2..5 x pass 0,1 x slice x lane x position x 35 pseudo-random words) compared with "
                "processBlock/processBlockXOR, blake2bHash, indexAlpha through the verif hooks; (2) a seeded grid (time 1..4, memory 0..6 MiB, threads 1..255, "
                "key length 1..1024, password 0..300 bytes, salt 0..264 bytes), random blocks through the compression function and random indexAlpha inputs, "
                "all judged by the Go transcription validated against (1) in the same run; every case on each block-function path (sse4, sse2, purego; the "
                "compression function also on processBlockGeneric directly); distinct = distinct (case, path)")
    ctx.assumptions = [
        "definition = spec/PrimArgon2.tla evaluated by TLC, anchored by the three RFC 9106 section 5 vectors (invariant Published of Argon2_Vec) and "
        "arithmetic ASSUMEs; beyond the TLC-evaluated table a Go transcription (harness/c15ref) validated against that table in the same run",
        "for m < 8p the expected value is the property's rule (8p blocks, H_0 over the requested m); RFC 9106 itself excludes such m",
        "Argon2Index abstracts the pseudo-random inputs (any reference lane, any scaled position 0..|W|-1) and is exhaustive only within its bounds "
        "(lanes <= 4, segment length <= 5, passes <= 3)",
        "passwords/salts are patterned (TLC) or seeded random; not enumerated; keyLen 0 (blake2b rejects a zero digest size) is outside the grid",
        "amd64: SSE4.1 rounds and the SSE2+Go-rounds fallback are both forced through VerifSetSSE4; other architectures' code is the purego path",
    ]
    Q = not ctx.thorough
    vec_kw = dict(module="Argon2_Vec", cfg="Argon2_Vec_%s.cfg" % ("Quick" if Q else "Thorough"), workers=ctx.pick(8, 12),
                  timeout=ctx.pick(600, 2400), count=False, note="TLC-evaluated table incl. the RFC 9106 section 5 vectors")
    idx_cfgs = ["L2S3"] if Q else ["L1S2", "L2S3", "L3S3", "L2S5", "L4S2", "L3S4"]
    doc_cfgs = {"DocPrev": "AreaAgrees"} if Q else {"DocPrev": "AreaAgrees", "DocAreaPlusOne": "AreaAgrees", "DocStart": "BlockAgrees",
                                                   "DocFirst": "AreaAgrees", "Vacuity": "SomeOtherLaneFirstPos"}
    jobs = {}
    for c in idx_cfgs:
        jobs["idx_" + c] = (lambda c=c: ctx.tlc("Argon2Index", cfg="Argon2Index_%s.cfg" % c, workers=ctx.pick(2, 4), timeout=1500, count=False,
                                                coverage=(c == "L2S3" and ctx.thorough),
                                                note="reference area vs RFC 9106 3.4.2 listed from the written blocks; race freedom"))
    for c in doc_cfgs:
        jobs["doc_" + c] = (lambda c=c: ctx.tlc("Argon2Index", cfg="Argon2Index_%s.cfg" % c, workers=1, timeout=900, count=False, expect_violation=True,
                                                note="documentation: a deliberate indexing mistake / coverage witness must be found"))
    # the index models run in the background while the table is evaluated and replayed
    pool = concurrent.futures.ThreadPoolExecutor(max_workers=len(jobs) + 2)
    futs = {k: pool.submit(f) for k, f in jobs.items()}
    futs["warm"] = pool.submit(warm_build, ctx)
    try:
        _table_and_replay(ctx, vec_kw)
    finally:
        res = {}
        err = None
        for k, f in futs.items():
            try:
                res[k] = f.result()
            except Exception as e:      # collect all threads before reporting
                err = err or e
        pool.shutdown()
    if err:
        raise err
    for c in idx_cfgs:
        x = res["idx_" + c]
        if not x.ok:
            raise vlib.Infra("design model Argon2Index/%s: %s violated:\n%s" % (c, x.violated, (x.cex or x.raw[-3000:])[:5000]))
        ctx.states += x.distinct
        ctx.transitions += x.generated
        if x.coverage_zero:
            ctx.notes.append("actions never taken in Argon2Index/%s: %s" % (c, x.coverage_zero))
        ctx.log("Argon2Index %s: %d distinct states, %d generated, %.0fs" % (c, x.distinct, x.generated, x.wall))
    for c, inv in doc_cfgs.items():
        x = res["doc_" + c]
        if x.violated != inv:
            raise vlib.Infra("Argon2Index/%s: expected a counterexample to %s, got %r (the invariants would not notice that mistake)" % (c, inv, x.violated))
    ctx.exhaustive = False
    ctx.notes.append("Argon2Index is exhaustive within its bounds; the byte comparison samples parameter classes (TLC table) and a seeded grid")


def _table_and_replay(ctx, vec_kw):
    r = ctx.tlc(**vec_kw)
    if not r.ok:
        raise vlib.Infra("Argon2_Vec: %s violated (the executable definition does not reproduce a published RFC 9106 vector, or a malformed value):\n%s"
                         % (r.violated, (r.cex or r.raw[-3000:])[:4000]))
    if len(r.traces) < 100:
        raise vlib.Infra("Argon2_Vec produced too few vectors: %d" % len(r.traces))
    kinds = {}
    for t in r.traces:
        kinds[t["k"]] = kinds.get(t["k"], 0) + 1
    ctx.log("vec: %d TLC-evaluated values %s in %.0fs" % (len(r.traces), kinds, r.wall))
    ctx.states += r.distinct
    ctx.transitions += r.generated
    ctx.extra["tlc_table"] = kinds

    vp = write_ndjson(ctx, "c15_vec.ndjson", r.traces)
    cases = []
    if ctx.replay:
        d = json.load(open(ctx.replay))["violation"]["detail"]
        if all(k in d for k in ("y", "t", "m", "p", "T", "pw", "salt")):
            cases = [{k: d[k] for k in ("y", "t", "m", "p", "T", "pw", "salt")}]
    sample = ctx.tmp("c15_sample.ndjson")
    nrand = 0 if ctx.replay else ctx.pick(800, 12000)
    nblk = ctx.pick(300, 5000)
    nidx = ctx.pick(20000, 200000)

    def go(tags, pg, n, smp):
        env = {"VERIF_C15_VEC": vp, "VERIF_C15_PUREGO": pg, "VERIF_C15_RANDOM": n, "VERIF_C15_BLOCKS": nblk, "VERIF_C15_INDEX": nidx}
        if smp:
            env["VERIF_C15_SAMPLE"] = smp
        return ctx.go_test("c15", "TestReplay", cases=cases, tags=tags, timeout=ctx.pick(600, 2400), env={k: str(v) for k, v in env.items()})
    # one after the other: vlib names the result files by counting the scratch directory, which is not safe for two
    # concurrent go_test calls (the packages were compiled in the background by warm_build)
    gres = {"asm": go("verif", "0", nrand, sample),
            "purego": go("verif,purego", "1", nrand // 2, None)}
    for name in ("asm", "purego"):
        g = gres[name]
        ex = g.get("extra") or {}
        ctx.log("harness %s: paths %s, %d evaluations, %d violations" % (name, ex.get("variants"), g.get("evaluations", 0), len(g.get("violations") or [])))
        if ex.get("variants_not_supported_by_cpu"):
            ctx.skipped.append("block-function path not supported by this CPU: %s" % ex["variants_not_supported_by_cpu"])
        ctx.extra["paths_" + name] = ex.pop("variants", None)
        for k in ("tlc_vectors", "grid_cases", "variants_not_supported_by_cpu"):
            if k in ex:
                ctx.extra["%s_%s" % (k, name)] = ex.pop(k)
        g["extra"] = ex
        ctx.absorb(g)

    if ctx.thorough and not ctx.replay:
        # the goroutines of processBlocks under the race detector (portable build: the assembly is not instrumented);
        # Argon2Index!NoRace is the model-level statement.  Informational: a report is a note, not a verdict on C15.
        try:
            g = ctx.go_test("c15", "TestReplay", cases=[], tags="verif,purego", race=True, timeout=1500, allow_fail=True,
                            env={"VERIF_C15_VEC": vp, "VERIF_C15_PUREGO": "1", "VERIF_C15_RANDOM": "400", "VERIF_C15_BLOCKS": "10", "VERIF_C15_INDEX": "100"})
            racy = "DATA RACE" in (g.get("_stdout") or "")
            ctx.extra["race_detector_run"] = {"evaluations": g.get("evaluations", 0), "data_race_reported": racy}
            if racy:
                ctx.notes.append("informational: the Go race detector reported a data race in argon2 (purego build); see Argon2Index!NoRace")
            for v in (g.get("violations") or []):
                ctx.violations.append(v)
            ctx.log("race-detector run: %d evaluations, data race reported: %s" % (g.get("evaluations", 0), racy))
        except vlib.Infra as e:
            ctx.skipped.append("race-detector run failed to complete: %s" % str(e)[:200])

    op = libargon2_opinion(ctx, sample, ctx.pick(10, 90))
    if op is None:
        ctx.skipped.append("reference C implementation (libargon2.so.1) not available: third opinion on the oracle skipped")
    else:
        ctx.extra["libargon2_agrees_with_oracle_on"] = op[0]
        ctx.extra["libargon2_rejected_parameters"] = op[1]
        ctx.extra["libargon2_max_threads_covered"] = op[2]
        ctx.log("libargon2 agrees with the oracle on %d cases, threads up to %d (rejected parameters / not reached within the time budget: %s)" % (op[0], op[2], op[1]))
