"""External references for C12 (amplifier; every part is optional and reports what it could not do).

  c12_ref.py <samples.ndjson>     lines {"cipher","key" hex,"aux","pt" hex,"ct" hex} produced by harness/c12

  blowfish : python `cryptography` (OpenSSL EVP with set_key_length) for key lengths 4..56; lengths 1..3 through the
             schedule-equivalent repeated key (the key schedule reads the key cyclically); `openssl enc -bf-ecb` (fixed
             16-byte key) for lengths dividing 16, as a second opinion
  cast5    : `openssl enc -cast5-ecb` (16-byte keys)
  rc2      : `openssl enc -rc2-ecb` (16 bytes, 128 effective bits), -rc2-40-cbc (5 bytes / 40 bits), -rc2-64-cbc (8 bytes / 64 bits);
             the CBC forms are used in the decrypt direction with IV 0: P_i = D(C_i) xor C_{i-1}
Prints one JSON line per mismatch and a final summary line."""
import json, subprocess, sys, warnings

OSSL = ["openssl", "enc", "-provider", "legacy", "-provider", "default", "-nopad"]


def ossl(args, data):
    p = subprocess.run(OSSL + args, input=data, capture_output=True, timeout=60)
    if p.returncode != 0:
        raise RuntimeError(p.stderr.decode()[-200:])
    return p.stdout


def main():
    have_ossl = subprocess.run(["openssl", "list", "-providers", "-provider", "legacy"], capture_output=True).returncode == 0
    try:
        warnings.filterwarnings("ignore")
        from cryptography.hazmat.primitives.ciphers import Cipher, algorithms, modes
        have_cg = True
    except Exception:
        have_cg = False
    done = {"blowfish-cryptography": 0, "blowfish-openssl": 0, "cast5-openssl": 0, "rc2-openssl": 0}
    skipped = {}
    bad = 0

    def mismatch(c, how, got):
        nonlocal bad
        bad += 1
        print(json.dumps({"mismatch": c, "reference": how, "reference_ct_or_pt": got.hex()}))

    for line in open(sys.argv[1]):
        c = json.loads(line)
        key, pt, ct = bytes.fromhex(c["key"]), bytes.fromhex(c["pt"]), bytes.fromhex(c["ct"])
        n = len(key)
        try:
            if c["cipher"] == "blowfish":
                if have_cg:
                    k = key if n >= 4 else key * (4 // n if 4 % n == 0 else 2)
                    e = Cipher(algorithms.Blowfish(k), modes.ECB()).encryptor()
                    got = e.update(pt) + e.finalize()
                    done["blowfish-cryptography"] += 1
                    if got != ct:
                        mismatch(c, "python cryptography Blowfish", got)
                if have_ossl and 16 % n == 0:
                    got = ossl(["-bf-ecb", "-K", (key * (16 // n)).hex()], pt)
                    done["blowfish-openssl"] += 1
                    if got != ct:
                        mismatch(c, "openssl bf-ecb", got)
                if not have_cg and not (have_ossl and 16 % n == 0):
                    skipped["blowfish keyLen %d" % n] = "no reference"
            elif c["cipher"] == "cast5":
                if have_ossl:
                    got = ossl(["-cast5-ecb", "-K", key.hex()], pt)
                    done["cast5-openssl"] += 1
                    if got != ct:
                        mismatch(c, "openssl cast5-ecb", got)
            elif c["cipher"] == "rc2":
                if not have_ossl:
                    continue
                if (n, c["aux"]) == (16, 128):
                    got = ossl(["-rc2-ecb", "-K", key.hex()], pt)
                    done["rc2-openssl"] += 1
                    if got != ct:
                        mismatch(c, "openssl rc2-ecb", got)
                elif (n, c["aux"]) in ((5, 40), (8, 64)):
                    name = "-rc2-40-cbc" if n == 5 else "-rc2-64-cbc"
                    x = ossl([name, "-d", "-K", key.hex(), "-iv", "00" * 8], ct)
                    prev = b"\0" * 8
                    got = b""
                    for i in range(0, len(ct), 8):
                        got += bytes(a ^ b for a, b in zip(x[i:i + 8], prev))
                        prev = ct[i:i + 8]
                    done["rc2-openssl"] += 1
                    if got != pt:
                        mismatch(c, "openssl " + name + " -d", got)
                else:
                    skipped["rc2 (key length, effective bits) other than (5,40) (8,64) (16,128): openssl enc cannot set them"] = \
                        skipped.get("rc2 (key length, effective bits) other than (5,40) (8,64) (16,128): openssl enc cannot set them", 0) + 1
        except Exception as e:
            skipped["%s keyLen %d" % (c["cipher"], n)] = repr(e)[:200]
    print(json.dumps({"summary": done, "bad": bad, "have_openssl_legacy": have_ossl, "have_cryptography": have_cg, "skipped": skipped}))


main()
