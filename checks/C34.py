"""C34 -- SSH client authentication follows the server method list and signs only accepted keys.

Specs: spec/SSHAuthObserver.tla (the property as a monitor over the events of one client
authentication run: Q1 listed methods only, Q1b never twice / retry bound, Q1r retries only
while listed, Q2 signature only right after a matching PK_OK and valid over the session id,
Q3 documented algorithm choice, Q4 nothing after success, Q5 bounded attempts),
spec/SSHAuthClient.tla (statement-by-statement transcription of clientAuthenticate and the
AuthMethods against a scripted server, or against a model of the Go server for the grid clause),
spec/SSHAuthClient_MC.tla / _Gen.tla (bounded instances, generator), spec/SSHAuthObserver_Trace.tla.

1. TLC model-checks the transcription against the monitor (exhaustive over client
   configurations x preambles x server scripts up to a bound) and prints one witness behaviour
   per model transition (events predicted for the client).
2. Binding R: harness/c34 (TestC34, scripted part) runs the real clientAuthenticate (hook
   ssh.VerifClientAuthRun, scripted in-memory transport) on every behaviour and compares the
   recorded events (packets written incl. method, key, algorithm, signature validity over the
   session id; packets read; AuthMethod entry/exit; result) with the prediction.
3. Binding T: real traces that differ from the prediction, traces whose model twin the monitor
   flagged, and a seeded sample are judged by TLC against SSHAuthObserver (trace validation).
   Verdicts come only from there (a real trace that contradicts a clause) and from the grid.
4. Grid: TLC enumerates client x Go-server configurations with the Go-server model, decides
   compatibility (Sufficient) and checks GridOK in the model; harness/c34 (TestC34, grid part) runs the real
   client against the real server over memconn; a compatible combination that fails to
   authenticate is a violation.
"""
import json, os
import vlib

# Signatures of the three defects repaired in /repo (631f7ef, 97a1b8c, 226918a; known_findings.json: fixed).  The
# model describes the repaired code (FixO1 = FixRetry = FixRetryList = TRUE); should either defect return, the real
# traces diverge from the prediction, the monitor rejects them and the violation carries these signatures.
SIG_O1 = "Q3:publickey-query-with-empty-algorithm"
SIG_RETRY = "Q1r:retry-of-method-no-longer-listed"
# C34-R2 (repaired by 226918a): a RetryableAuthMethod around PublicKeys lost the method list a rejected signature
# brought when a later try returned no list; the next method was then picked from an older list.
SIG_RETRYLIST = "Q1:stale-list-after-retried-publickey"


def _after_retried_publickey(real, idx):
    """Is real[idx] (a top-level begin) directly preceded by a publickey attempt in which the retry wrapper made >= 2 tries?"""
    j = idx - 1
    if j < 0 or real[j].get("ev") != "end" or real[j].get("inner") or real[j].get("m") != "publickey":
        return False
    tries = 0
    j -= 1
    while j >= 0 and not (real[j].get("ev") == "begin" and not real[j].get("inner")):
        if real[j].get("ev") == "begin" and real[j].get("inner"):
            tries += 1
        j -= 1
    return tries >= 2

ASSUMPTIONS = [
    "ClientConfig.AuthCallback is nil (with it the application, not the client, picks the next method)",
    "Q1 reads 'the server lists' as: the method list of the most recent USERAUTH_FAILURE answering an authentication request proper; "
    "failure lists answering public-key queries are not consulted (documented AuthMethod.auth contract: nil list = reuse previous); after a "
    "server protocol error (message not allowed at that point / EOF) only 'listed at some point' is required",
    "Q2 accepts PK_OK carrying any algorithm of the key's format (the code's documented OpenSSH-compatible behaviour), same key blob required",
    "Q4: USERAUTH_SUCCESS answering a public-key query is a protocol error, not a success",
    "server-sig-algs is taken from the EXT_INFO preceding SERVICE_ACCEPT; later EXT_INFO is ignored once per request as the code documents",
    "scripted transport: packets queue up per client write; empty queue reads as io.EOF; disconnect becomes the transport's *disconnectMsg error",
    "RetryableAuthMethod with maxTries <= 0 retries for ever by documentation; Q5 bounds the top-level attempts (65 including none)",
    "trusted: TLC, the verif hook (recorders wrap AuthMethods without changing them), Go crypto for signature verification in the harness",
]


def _specific_sig(inv, ev):
    inv = (inv or "unexplained").lstrip("T")
    if inv == "Q3" and ev.get("ev") == "w" and ev.get("m") == "publickey" and not ev.get("sig") and ev.get("algo", "") == "":
        return SIG_O1
    if inv == "Q1r":
        return SIG_RETRY
    parts = [inv, str(ev.get("ev", "?"))]
    if ev.get("ev") == "w":
        parts.append(str(ev.get("m")))
        if ev.get("m") == "publickey":
            parts.append("signed" if ev.get("sig") else "query")
            parts.append("algo=" + (ev.get("algo") or "<empty>"))
            if ev.get("sig") and not ev.get("sigok", True):
                parts.append("bad-signature")
    elif ev.get("ev") in ("begin", "end"):
        parts.append(str(ev.get("m")))
        if ev.get("inner"):
            parts.append("inner")
    elif ev.get("ev") == "done":
        parts.append(str(ev.get("res")))
    return ":".join(parts)


def _judge(ctx, touts, label):
    """Binding T: one TLC run of SSHAuthObserver_Trace judges every recorded real trace; the spec
    prints a C34BAD line for each run that contradicts a clause (and skips to the next run)."""
    if not touts:
        return 0
    lines, first = [], {}
    for i, t in enumerate(touts):
        first[i] = len(lines) + 1
        lines.append({"ev": "reset", "trace": i})
        lines.append({"ev": "cfg", "auth": t["auth"]})
        lines += t["real"]
    text = "\n".join(json.dumps(x, separators=(",", ":")) for x in lines) + "\n"
    r = ctx.tlc("SSHAuthObserver_Trace", cfg="SSHAuthObserver_Trace.cfg", workers=1, timeout=900, files={"trace.ndjson": text},
                expect_violation=True, note="trace validation of %d recorded real runs (%d events) [%s]" % (len(touts), len(lines), label))
    if not r.ok:
        raise vlib.Infra("trace validation did not consume the recorded events (%s):\n%s" % (r.violated, r.raw[-3000:]))
    bad = {}
    for ln in r.lines:
        if isinstance(ln, str) and ln.startswith("C34BAD "):
            _, lno, js = ln.split(" ", 2)
            d = json.loads(js)
            bad.setdefault(int(d["trace"]), (int(lno), sorted(d["clauses"])))
    for ti, (lno, clauses) in sorted(bad.items()):
        t = touts[ti]
        ev = lines[lno - 1]
        sig = _specific_sig(clauses[0], ev)
        if clauses == ["Q1"] and ev.get("ev") == "begin" and _after_retried_publickey(t["real"], lno - first[ti] - 2):
            sig = SIG_RETRYLIST
        what = ("real clientAuthenticate run contradicts clause %s of C34 (config %s, server script %s): offending event %s"
                % ("+".join(clauses), t["cfg"], t["script"], json.dumps({k: x for k, x in ev.items() if x not in ("", [], 0, False)})))
        ctx.violation(sig, what, {"clauses": clauses, "offending_event": ev, "event_index": lno - first[ti] - 2, "why_judged": t["why"],
                                  "real_trace": t["real"],
                                  "case": {"cfg": t["cfg"], "auth": t["auth"], "script": t["items"], "events": [], "bad": [], "res": ""}})
    acc = len(touts) - len(bad)
    # sampled traces equal a model behaviour and are already counted as validated by the replay
    ctx.traces_validated += len([i for i, t in enumerate(touts) if i not in bad and t["why"] != "sample"])
    ctx.log("%s: %d real traces judged by TLC against the monitor, %d accepted" % (label, len(touts), acc))
    return acc


def _grid_report(ctx, ex):
    if "grid_combinations" not in ex:
        return
    divs = ex.pop("grid_divergences", None) or []
    ctx.extra.pop("grid_divergences", None)
    ctx.traces_validated += ex.get("grid_combinations", 0)
    ctx.log("grid: %d combinations, %d compatible, %d authenticated, %d outside the claim (necessary but not sufficient), %d differ from the model's prediction"
            % (ex.get("grid_combinations", 0), ex.get("grid_compatible", 0), ex.get("grid_authenticated", 0),
               ex.get("grid_not_claimed_gap", 0), ex.get("grid_divergent", 0)))
    if divs:
        ctx.notes.append("grid: %d combinations behave differently from the Go-server model's prediction (informational), first: %s"
                         % (ex.get("grid_divergent", 0), json.dumps(divs[0])))


def _replay(ctx, cases, label):
    res = ctx.go_test("c34", "TestC34", cases=cases, timeout=1500)
    ex = res.get("extra") or {}
    touts = ex.pop("traces", None) or []
    ctx.absorb(res, validated=False)
    ctx.extra.pop("traces", None)
    _grid_report(ctx, ex)
    ctx.traces_validated += ex.get("matched", 0)     # real run == a behaviour of the model TLC checked
    div = [t for t in touts if t["why"] == "divergent"]
    flagged = [t for t in touts if t["why"] == "flagged"]
    sample = [t for t in touts if t["why"] == "sample"]
    ctx.log("%s: %d cases replayed, %d matched the model, %d divergent, %d match a behaviour the model's monitor flags"
            % (label, res.get("evaluations", 0), ex.get("matched", 0), ex.get("divergent", 0), ex.get("flagged_by_model_monitor", 0)))
    # every divergent real trace must be judged by the monitor (the same expected/observed pair can be harmless in
    # one run and a violation in another): all of them up to a cap, one representative per (config, expected
    # event, observed event) first; what cannot be judged makes the run inconclusive (exit 2), never green
    reps, rest, seen = [], [], set()
    for t in div:
        k = (t["cfg"], json.dumps(t.get("want"), sort_keys=True), json.dumps(t.get("got"), sort_keys=True))
        if k not in seen:
            seen.add(k)
            reps.append(t)
        else:
            rest.append(t)
    cap = ctx.pick(400, 2500)
    chosen = (reps + rest)[:cap]
    unjudged = ex.get("divergent", 0) - len(chosen)
    # real runs equal to a model behaviour that the model's own monitor flags (none while TLC holds the invariants)
    fl, fseen = [], set()
    for t in flagged:
        k = tuple(sorted(t.get("bad") or []))
        if k not in fseen:
            fseen.add(k)
            fl.append(t)
    _judge(ctx, sample + chosen + fl, label)
    if div:
        ctx.notes.append("%s: %d real runs differ from the transcription's prediction (%d distinct kinds, first: cfg=%s script=%s want=%s got=%s); "
                         "they were judged by the monitor directly" % (label, ex.get("divergent", 0), len(reps), div[0]["cfg"], div[0]["script"],
                                                                      json.dumps(div[0].get("want")), json.dumps(div[0].get("got"))))
        ctx.extra["model_divergences"] = ctx.extra.get("model_divergences", 0) + ex.get("divergent", 0)
    return unjudged, ex


def run(ctx):
    ctx.level = "model_checking"
    ctx.assumptions = ASSUMPTIONS
    ctx.rule = ("scripted part: cases = witness behaviours TLC prints from SSHAuthClient_Gen (one per distinct model state and last event; "
                "client configuration x preamble x server items up to the script bound; plus all histories / random long scripts in the thorough tier), "
                "each replayed on the real clientAuthenticate; distinct = distinct (configuration, server script).  grid part: cases = client "
                "configuration x Go-server configuration; distinct = distinct pair")
    if ctx.replay:
        with open(ctx.replay) as fh:
            d = (json.load(fh).get("violation") or {}).get("detail") or {}
        case = d.get("case")
        if case:
            _replay(ctx, [case], "replay")
        else:
            raise vlib.Infra("replay file carries no case")
        return

    unjudged = 0
    # ---- exhaustive model checking of the design (thorough: larger bounds, repaired variants)
    if ctx.thorough:
        for cfg in ["Main3", "Deep", "Bound", "RetryMC3", "RetryDeep", "O1MC3", "RetryListFixed"]:
            r = ctx.tlc_must_hold("SSHAuthClient_MC", cfg="SSHAuthClient_%s.cfg" % cfg, timeout=1500, heap="6g")
            ctx.log("MC %s: %d distinct states" % (cfg, r.distinct))
        # documentation of the three repaired defects: the model of the old behaviour (FixO1 / FixRetry / FixRetryList =
        # FALSE) must still exhibit the counterexamples -- this shows the clauses Q3 / Q1r / Q1 can fail, nothing about the code
        for cfg, inv in [("DocO1", "Q3"), ("DocRetry", "Q1r"), ("DocRetryList", "Q1")]:
            r = ctx.tlc("SSHAuthClient_MC", cfg="SSHAuthClient_%s.cfg" % cfg, timeout=900, expect_violation=True, count=False,
                        note="old-behaviour model: design-level counterexample for %s (documentation only)" % inv)
            if r.violated != inv:
                raise vlib.Infra("the model %s should violate %s, TLC says %r" % (cfg, inv, r.violated))
        # vacuity: every action of the specification is taken in the quick generator's instance
        r = ctx.tlc_must_hold("SSHAuthClient_Gen", cfg="SSHAuthClient_Cov.cfg", timeout=900, coverage=True, count=False, heap="6g")
        if r.coverage_zero:
            ctx.notes.append("actions never taken in the quick instance: %s" % r.coverage_zero)

    # ---- generation (merged with all invariants, and with the grid: Go-server model, GridOK) + replay on the real client / real client x real server
    gens = [("GenQuick", 8)] if not ctx.thorough else [("GenCov3", 8), ("GenPre2", 8), ("GenAll2", 8), ("GenGrid", 4)]
    for g, workers in gens:
        r = ctx.tlc_must_hold("SSHAuthClient_Gen", cfg="SSHAuthClient_%s.cfg" % g, workers=workers, timeout=1800, heap="8g")
        ctx.log("%s: %d states, %d behaviours" % (g, r.distinct, len(r.traces)))
        if not r.traces:
            raise vlib.Infra("generator %s produced no behaviours" % g)
        u, ex = _replay(ctx, r.traces, g)
        unjudged += u
        if g in ("GenQuick", "GenGrid") and not ex.get("grid_combinations"):
            raise vlib.Infra("no grid combination was run")
        if g in ("GenQuick", "GenCov3") and not any(c.get("res") == "toomany" for c in r.traces):
            raise vlib.Infra("the 64-attempt bound was not reached by any generated behaviour")
        r.traces = None
    if ctx.thorough:
        r = ctx.tlc("SSHAuthClient_Gen", cfg="SSHAuthClient_GenSim.cfg", workers=1, simulate=3000, depth=150, timeout=900, count=False,
                    note="random long scripts (MaxScript 8)")
        if not r.ok:
            raise vlib.Infra("simulation of SSHAuthClient_Gen failed: %s" % (r.violated,))
        ctx.log("GenSim: %d behaviours" % len(r.traces))
        if r.traces:
            u, _ = _replay(ctx, r.traces, "GenSim")
            unjudged += u

    # vacuity guard for Q2: PK_OK echoing the key blob but naming the other family's algorithm (certificate <-> plain)
    # must have answered queries for certificate keys and for plain keys
    kinds = ["ssh-ed25519", "ssh-ed25519-cert-v01@openssh.com", "ssh-rsa", "ssh-rsa-cert-v01@openssh.com"]
    missing = [k for k in kinds if not ctx.extra.get("cross_family_pkok:" + k)]
    if missing:
        raise vlib.Infra("no cross-family PK_OK reply answered a query for key format(s) %s" % missing)
    if not ctx.extra.get("cross_family_pkok_cert_key") or not ctx.extra.get("cross_family_pkok_plain_key"):
        raise vlib.Infra("no cross-family PK_OK reply ran for a certificate key and for a plain key (cert=%s plain=%s)"
                         % (ctx.extra.get("cross_family_pkok_cert_key"), ctx.extra.get("cross_family_pkok_plain_key")))
    ctx.exhaustive = True
    if unjudged and not ctx.violations:
        raise vlib.Infra("%d kinds of real runs differ from the model and could not all be judged by the monitor: "
                         "the transcription SSHAuthClient.tla no longer describes ssh/client_auth.go" % unjudged)
