"""X05 (growth) — autocert renewal timer discipline, certificates expiring in memory, and DirCache.

Specs (all prefixed AutocertRenewTimer):
  AutocertRenewTimer.tla            Manager.startRenew / stopRenew / renewal map, domainRenewal start / stop / renew /
                                    do / updateState, the two call sites of startRenew in GetCertificate, the delayed removal
                                    of a failed state; mutexes held across blocking operations are explicit.  T1..T11.
  AutocertRenewTimer_Trace.tla      binding T: event logs of a REAL Manager (fake CA, testing/synctest) validated in seconds
  AutocertRenewTimerDirCache.tla    DirCache at file-system-operation granularity (temp file + rename, abandoned goroutines)
  AutocertRenewTimerCacheAbs.tla    the Cache interface as an atomic map with cancellation; DirCache refines it (D4)
  AutocertRenewTimerCacheAbs_Trace  binding T: histories of real goroutines on a real directory

 (a)/(b) TLC checks T1..T11 exhaustively on small instances (2 certKeys, callers, a stopRenew goroutine, CA and Cache.Put
     failures, the clock running past NotAfter).  harness/x05 TestTimer runs seeded random scenarios against the real Manager
     in virtual time and the recorded logs are validated by AutocertRenewTimer_Trace (renewals not early, not late, re-arm delay
     inside the documented window, what every call was served).
 (c) TLC checks D1..D6 incl. refinement of the atomic map; TestDirCacheConcurrent (real goroutines, -race, cancellation before
     and during the call, values up to megabytes) gives histories validated by AutocertRenewTimerCacheAbs_Trace;
     TestDirCacheDirected checks the documented sequential behaviour, permissions, the key -> file mapping and containment;
     TestDirCacheCancelRace looks for the known deviation (Put -> nil without storing).
"""
import json, os, concurrent.futures
import vlib

INV = "x05"


def _load(path):
    out = []
    if os.path.exists(path):
        with open(path) as fh:
            for line in fh:
                if line.strip():
                    out.append(json.loads(line))
    return out


def _mc_jobs(ctx):
    """(module, cfg, expected violation or None)"""
    q = [
        ("AutocertRenewTimerDirCache", "AutocertRenewTimerDirCache_MC2.cfg", None),
        ("AutocertRenewTimerDirCache", "AutocertRenewTimerDirCache_InPlace.cfg", "D2_NoPartialRead"),
        ("AutocertRenewTimerDirCache", "AutocertRenewTimerDirCache_OkNoStore.cfg", "D5_PutOkImpliesStored"),
        ("AutocertRenewTimer", "AutocertRenewTimer_MC1Q.cfg", None),
        ("AutocertRenewTimer", "AutocertRenewTimer_NoStopQ.cfg", None),
        ("AutocertRenewTimer", "AutocertRenewTimer_StopCycle.cfg", "NoLockCycle"),
    ]
    t = [
        ("AutocertRenewTimerDirCache", "AutocertRenewTimerDirCache_MC.cfg", None),
        ("AutocertRenewTimerDirCache", "AutocertRenewTimerDirCache_MCQ.cfg", None),
        ("AutocertRenewTimer", "AutocertRenewTimer_MCQ.cfg", None),
        ("AutocertRenewTimer", "AutocertRenewTimer_MC.cfg", None),
        ("AutocertRenewTimer", "AutocertRenewTimer_MC1.cfg", None),
        ("AutocertRenewTimer", "AutocertRenewTimer_NoStop.cfg", None),
    ]
    return q + (t if ctx.thorough else [])


def _run_mc(ctx, job):
    module, cfg, expect = job
    if expect:
        r = ctx.tlc(module, cfg=cfg, workers=2, timeout=600, expect_violation=True,
                    note="non-vacuity / documented observation: %s must be violated" % expect)
        if r.violated != expect:
            raise vlib.Infra("%s: expected a counterexample to %s, TLC reported %r" % (cfg, expect, r.violated))
        return "%s: counterexample to %s found, as expected (%d states)" % (cfg, expect, r.distinct)
    r = ctx.tlc_must_hold(module, cfg=cfg, workers=ctx.pick(4, 5), timeout=ctx.pick(600, 1700))
    return "%s: holds, %d distinct states" % (cfg, r.distinct)


def _timer(ctx, pool, first, n):
    """run the scenarios (go test, sequential), submit the validations to the pool; returns (scenarios, events, futures)"""
    tp = ctx.tmp("x05_timer_%d.ndjson" % first)
    res = ctx.go_test("x05", "TestTimer$", timeout=1200, env={"VERIF_TRACES": tp, "X05_SCENARIOS": n, "X05_FIRST": first})
    ctx.absorb(res, validated=False)
    scen = _load(tp)
    if not scen:
        if res.get("violations"):
            return 0, 0, []          # the harness stopped at a verdict of its own (a hang it classified)
        raise vlib.Infra("TestTimer recorded no scenario")
    futs = []

    def validate(cfg, group):
        def describe(tr, i):
            for s in group:
                if s["events"] == tr:
                    return "(scenario %d, %s; steps: %s)" % (s["id"], s["kind"], "; ".join(s["steps"]))
            return ""
        ok = ctx.validate_traces("AutocertRenewTimer_Trace", [s["events"] for s in group], cfg="AutocertRenewTimer_Trace_%s.cfg" % cfg,
                                 sig_prefix="x05-timer-trace-rejected", timeout=1500, max_rejects=3, describe=describe)
        return "timer scenarios %s: %d recorded, %d accepted by AutocertRenewTimer_Trace" % (cfg, len(group), ok)
    for cfg in ("D30", "D10"):
        group = [s for s in scen if s["cfg"] == cfg]
        for i in range(0, len(group), 40):
            futs.append(pool.submit(validate, cfg, group[i:i + 40]))
    return len(scen), sum(len(s["events"]) for s in scen), futs


def _dircache(ctx, pool, rounds, race, maxsize):
    tp = ctx.tmp("x05_dc_%s.ndjson" % ("race" if race else "plain"))
    env = {"VERIF_TRACES": tp, "X05_DC_ROUNDS": rounds}
    if maxsize:
        env["X05_DC_MAXSIZE"] = maxsize
    res = ctx.go_test("x05", "TestDirCacheConcurrent$", timeout=1200, race=race, env=env)
    ctx.absorb(res, validated=False)
    rs = _load(tp)
    if not rs:
        raise vlib.Infra("TestDirCacheConcurrent recorded no history")

    def validate(chunk):
        # the linearization search branches: keep single TLC runs small
        ok = ctx.validate_traces("AutocertRenewTimerCacheAbs_Trace", [r["events"] for r in chunk],
                                 sig_prefix="x05-dircache-history-rejected", timeout=1500, max_rejects=3)
        return "DirCache histories (%s): %d recorded, %d linearizable w.r.t. the atomic map" % ("-race" if race else "large values", len(chunk), ok)
    return [pool.submit(validate, rs[i:i + 25]) for i in range(0, len(rs), 25)]


def run(ctx):
    ctx.level = "model_checking"
    ctx.rule = ("timer: one case = one seeded scenario (sequence of get / sleep / CA flip / Cache.Put flip / gate / ungate / stop / "
                "second startRenew steps over 2-3 certKeys, RenewBefore 0 or 10 days, preloaded cache entries of varying remaining "
                "life; every 6th scenario lets a certificate expire in memory while its renewal keeps failing), distinct = distinct "
                "step sequence; DirCache: one case = one round of 3-5 goroutines x 4-8 operations on 1-2 keys with seeded sizes and "
                "cancellations (the interleaving is the scheduler's), plus the directed table (41 distinct cases)")
    ctx.assumptions = [
        "the fake CA issues 90-day certificates at once (orders are ready: challenges are X02's subject); its clock and the Manager's are the bubble's virtual clock",
        "callbacks (Cache, CA, renewal-loop hook) are attributed to GetCertificate callers by goroutine id; everything else is the Manager's own goroutines",
        "the cache is written by the Manager under test only",
        "assumption A of the specification: a first-issuance call is short compared with the renewal delay (no clock tick during it in the model)",
        "recorded times are whole seconds: window checks allow 1 s of rounding",
        "DirCache runs on the file system of t.TempDir() (rename atomic, open files keep their inode)",
    ]
    if ctx.replay:
        d = (json.load(open(ctx.replay)).get("violation") or {}).get("detail") or {}
        sid = None
        if isinstance(d, dict):
            sid = d.get("scenario")
            if sid is None and isinstance(d.get("trace"), list):
                sid = None
        if sid is not None:
            with concurrent.futures.ThreadPoolExecutor(max_workers=2) as pool:
                for f in _timer(ctx, pool, int(sid), 1)[2]:
                    ctx.log(f.result())
            return
    skip_mc = bool(os.environ.get("VERIF_SKIP_MC"))
    if skip_mc:
        ctx.skipped.append("VERIF_SKIP_MC set: exhaustive model checking skipped")

    jobs = [] if skip_mc else _mc_jobs(ctx)
    # go tests run one after the other in this thread (vlib names their result files by a counter); TLC runs -- exhaustive
    # checking and trace validation -- go to a thread pool meanwhile
    with concurrent.futures.ThreadPoolExecutor(max_workers=ctx.pick(4, 4)) as pool:
        futs = [pool.submit(_run_mc, ctx, j) for j in jobs]
        nscen, nev, f = _timer(ctx, pool, 0, ctx.pick(18, 240))
        futs += f
        ctx.extra["timer_events_recorded"] = nev
        futs += _dircache(ctx, pool, ctx.pick(8, 100), race=True, maxsize=65536)
        futs += _dircache(ctx, pool, ctx.pick(10, 125), race=False, maxsize=0)
        ctx.absorb(ctx.go_test("x05", "TestDirCacheDirected$", timeout=600), validated=False)
        ctx.absorb(ctx.go_test("x05", "TestDirCacheCancelRace$", timeout=900, allow_fail=True,
                               env={"X05_RACE_TRIES": ctx.pick(1500, 30000)}), validated=False)
        for f in futs:
            ctx.log(f.result())
    ctx.exhaustive = False
    ctx.notes.append("TLC is exhaustive on the stated small instances; schedules of the real Manager and of the real DirCache goroutines are "
                     "seeded samples judged by trace validation.  stopRenew (test-only API) is reached through the hook VerifStopRenew; the "
                     "lock cycle stopRenew / renew / m.cert found by TLC (NoLockCycle) is an observation, not a verdict.")
