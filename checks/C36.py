"""C36 -- connection-protocol handling is robust and replies are matched.

Spec: spec/SSHMux.tla (big-step model of mux.loop/onePacket, channel.handlePacket, the channel
table with slot reuse, open/confirm/failure, the global and per-channel reply gates, unknown
channels, shutdown).  TLC checks M1..M4 (reply matching, unknown-channel handling, duplicate /
misdirected open responses, closure at connection end) exhaustively for bounded interleavings of
peer packets and local calls, then emits one witness history per model transition (plus seeded
random long histories) with the predicted packets / returned calls / liveness per step.
Binding R: harness/c36 replays every history on a real mux inside a testing/synctest bubble
(harness = raw peer) and compares step by step and at connection end.  Random grammar-based long
sequences (no prediction: never panic, everything closed and returned at the end) are exploration."""
import vlib


def run(ctx):
    ctx.level = "model_checking"
    ctx.rule = ("cases = histories emitted by TLC from SSHMux (one per model transition out of every distinct abstract mux state within "
                "the bounds, from 5 initial configurations, plus seeded simulated long histories); each replayed on a real mux and "
                "compared per step (packets written, calls returned with result class, loop exited) and at connection end (streams "
                "closed, held channels closed, no call blocked); distinct = distinct history")
    ctx.assumptions = [
        "the packetConn never delivers an empty packet (the real transport guarantees it)",
        "only connection-protocol message types (80-82, 90-100, 192) and one unassigned type are injected; transport/auth message "
        "numbers addressed to a channel id are outside the property's alphabet",
        "each injected event runs to quiescence (testing/synctest) before the next; the one finer-grain interleaving explored is a "
        "want-reply request whose writePacket is held by the transport (c35conn write gate) while 0..n peer replies / pings arrive, "
        "then released; other races inside one step are not explored",
        "bursts (packets queued together, handled by the read loop before any local goroutine runs) are limited to kinds whose outcome "
        "in the model does not depend on goroutine scheduling: open confirmation / failure, data, EOF, ping",
        "the application services both request streams and never starts two want-reply requests on one gate at once",
    ]
    if ctx.replay:
        import json
        rp = json.load(open(ctx.replay))
        det = (rp.get("violation") or {}).get("detail") or {}
        case = det.get("case")
        if not case:
            raise vlib.Infra("replay file has no history (exploration findings are re-run with the same VERIF_SEED)")
        ctx.absorb(ctx.go_test("c36", "TestReplay$", cases=[case], timeout=600))
        return
    q = not ctx.thorough
    mcs = [("Q", 900), ("QLite", 900), ("HoldQ", 900), ("BurstQ", 900)] if q else [("Q", 900), ("T", 1500), ("T31", 1500), ("T32", 1800), ("TLite", 2400), ("HoldQ", 900), ("HoldT", 2400), ("BurstQ", 900), ("BurstT", 2400)]
    for name, to in mcs:
        r = ctx.tlc_must_hold("SSHMux_MC", cfg="SSHMux_%s.cfg" % name, timeout=to)
        ctx.log("TLC %s: %d generated, %d distinct, %.0fs" % (name, r.generated, r.distinct, r.wall))
    if ctx.thorough:
        # the code as it is (Reject frees the slot unconditionally): documents the design-level counterexample; never a verdict
        r = ctx.tlc("SSHMux_MC", cfg="SSHMux_Faithful.cfg", timeout=1500, expect_violation=True, count=False)
        ctx.notes.append("faithful model (RejectChecksSlot=FALSE): TLC reports %s" % (("violation of " + str(r.violated)) if r.violated else "no violation"))

        # a design that drains only one buffered reply before a new request must violate M1 (sensitivity of the finer-grain model)
        r = ctx.tlc("SSHMux_MC", cfg="SSHMux_HoldDrainOne.cfg", timeout=1500, expect_violation=True, count=False)
        ctx.notes.append("DrainAll=FALSE variant: TLC reports %s" % (("violation of " + str(r.violated)) if r.violated else "no violation"))
        # a design in which the OpenChannel goroutine (not the read loop) sets `decided` must violate M_dup
        r = ctx.tlc("SSHMux_MC", cfg="SSHMux_BurstOpenerDecides.cfg", timeout=900, expect_violation=True, count=False)
        ctx.notes.append("DecidedInLoop=FALSE variant: TLC reports %s" % (("violation of " + str(r.violated)) if r.violated else "no violation"))
    gens = [("GenQ", None, None), ("GenHoldQ", None, None)] if q else [("GenT", None, None), ("GenTLite", None, None), ("GenHoldT", None, None)]
    gens.append(("Sim", ctx.pick(250, 3000), 12))
    if ctx.thorough:
        gens.append(("SimFull", 1500, 10))
    total = 0
    pending = []
    for gi, (name, sim, depth) in enumerate(gens):
        r = ctx.tlc_must_hold("SSHMux_MC", cfg="SSHMux_%s.cfg" % name, workers=1, timeout=2400, count=False,
                              simulate=sim, depth=depth)
        if not r.traces:
            raise vlib.Infra("generator %s produced no histories" % name)
        ctx.log("%s: %d histories (%.0fs)" % (name, len(r.traces), r.wall))
        total += len(r.traces)
        pending.extend(r.traces)
        if len(pending) >= 150000 or gi == len(gens) - 1:
            res = ctx.go_test("c36", "TestReplay$", cases=pending, timeout=2400)
            ctx.absorb(res)
            pending = []
    # bursts: 2..3 peer packets queued on the transport together, so that the read loop handles all of them before the
    # goroutine blocked in OpenChannel runs again (GOMAXPROCS=1 makes the Go scheduler keep the loop running until it blocks;
    # the predictions themselves do not depend on the schedule)
    r = ctx.tlc_must_hold("SSHMux_MC", cfg="SSHMux_%s.cfg" % ("GenBurstQ" if q else "GenBurstT"), workers=1, timeout=2400, count=False)
    if not r.traces:
        raise vlib.Infra("burst generator produced no histories")
    ctx.log("burst histories: %d (%.0fs)" % (len(r.traces), r.wall))
    total += len(r.traces)
    res = ctx.go_test("c36", "TestReplay$", cases=r.traces, timeout=2400, env={"GOMAXPROCS": "1"})
    ctx.absorb(res)
    nb = res.get("extra", {}).get("duplicate_response_bursts_replayed", 0)
    nf = res.get("extra", {}).get("duplicate_response_bursts_loop_first", 0)
    if not res.get("violations") and (nb == 0 or nf == 0):
        raise vlib.Infra("vacuous: no back-to-back duplicate open-response burst was replayed with the read loop ahead of the opener "
                         "(replayed=%d, loop first=%d)" % (nb, nf))
    ctx.extra["histories_replayed"] = total

    # exploration: grammar-based random long sequences, no model prediction
    res = ctx.go_test("c36", "TestFuzz$", env={"VERIF_C36_FUZZ": ctx.pick(300, 4000)}, timeout=1800)
    fz = dict(res)
    fz["evaluations"] = 0
    fz["distinct"] = 0
    ctx.absorb(fz, validated=False)
    ctx.extra["exploration_sequences"] = res.get("evaluations", 0)
    ctx.exhaustive = False
