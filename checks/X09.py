"""X09 (growth) -- ACME account life cycle, key identification (jwk vs kid), account key rollover and
revocation in golang.org/x/crypto/acme.

Spec: spec/AcmeAccount.tla.  Client side: Discover (directory cached under cacheMu), accountKID (Client.KID
cached under cacheMu, looked up lazily with newAccount onlyReturnExisting, only a successful lookup cached),
Register (+ External Account Binding), GetReg, UpdateReg, DeactivateReg, AccountKeyRollover, RevokeCert (nil key /
certificate key / explicit key) and the nil-key rule of postNoRetry that every other signed request follows.
Environment: an RFC 8555 CA with an account table (account -> key, status), a revocable certificate, and
injected failures (500, transport error, malformed, unauthorized, reply lost after the effect, directory 500).

 (1) TLC model-checks A1..A5 + TypeOK/ServerSane/Progress exhaustively on bounded instances (1 caller x 3-5
     calls, 2 callers x 2-5 calls, 3 callers x 4 calls); four deliberately wrong clients (no mutex around the lookup, key committed
     before the reply, new key kept after a failed rollover, Location of a 409 cached as KID) and the
     "AccountKeyRollover concurrently with other calls" instance must produce their counterexamples.
 (2) binding R: AcmeAccount_Gen emits one witness history per distinct (model state, last event), every one
     ending where a call has just returned; harness/x09 TestReplay plays each on the REAL acme.Client against a
     stateful fake CA with an independent JWS verifier, the CA's replies scripted by the model, and compares
     every request (signer found by trying all known keys, jwk/kid, kid, url, payload class, inner JWS of
     keyChange, EAB), every reply (so the Go CA is checked against the model's CA), every result class and the
     client's Key / KID after every call.
 (3) binding T: seeded random sessions, two goroutines on one client (-race), failures injected at random,
     validated by AcmeAccount_Trace; a sample of the replay logs goes the same way.
"""
import concurrent.futures as cf
import json, os, random
import vlib

EXPECT = {"Doc_noMutex": {"A2_OneLookup"},
          "Doc_commitEarly": {"A1_KidBelongs", "A2_CacheSound", "A4_KeyAccepted", "A4_RolloverShape"},
          "Doc_keepNew": {"A2_CacheSound", "A4_KeyAccepted", "A1_KidBelongs"},
          "Doc_cache409": {"A2_CacheSound", "A1_KidBelongs"},
          "Doc_concurrentRollover": {"A4_OneSigner", "A4_Agreement", "A1_KidBelongs", "A2_CacheSound", "A4_RolloverShape"}}


def _isgen(c):
    return c.startswith("Gen")


def _par_tlc(ctx, cfgs, workers):
    def one(c):
        kw = dict(cfg="AcmeAccount_%s.cfg" % c, count=False, timeout=1700, workers=workers.get(c, 2))
        if c in EXPECT:
            kw["expect_violation"] = True
        if _isgen(c):
            kw["workers"] = 1
        return ctx.tlc("AcmeAccount_Gen" if _isgen(c) else "AcmeAccount_MC", **kw)
    res, errs = {}, []
    with cf.ThreadPoolExecutor(max_workers=8) as ex:
        futs = {c: ex.submit(one, c) for c in cfgs}
        for c in cfgs:
            try:
                res[c] = futs[c].result()
            except vlib.Infra as e:
                errs.append(str(e))
    if errs:
        raise vlib.Infra("; ".join(errs)[:6000])
    for c in cfgs:
        r = res[c]
        if c in EXPECT:
            if r.violated not in EXPECT[c]:
                raise vlib.Infra("AcmeAccount/%s: expected a documented counterexample to one of %s, TLC says violated=%r"
                                 % (c, sorted(EXPECT[c]), r.violated))
        elif not r.ok:
            raise vlib.Infra("design model AcmeAccount/%s: %s violated (model-level counterexample, not reproduced on code):\n%s"
                             % (c, r.violated or "postcondition", (r.cex or r.raw[-3000:])[:6000]))
        if not _isgen(c):
            ctx.states += r.distinct
            ctx.transitions += r.generated
        ctx.log("TLC %-24s %9d generated %9d distinct %6.1fs%s%s" % (c, r.generated, r.distinct, r.wall,
                "  (documented counterexample: %s)" % r.violated if c in EXPECT else "",
                "  %d witness histories" % len(r.traces) if _isgen(c) else ""))
        r.raw = ""
    return res


def _load(path):
    tr = []
    if os.path.exists(path):
        with open(path) as fh:
            for line in fh:
                line = line.strip()
                if line:
                    tr.append(json.loads(line))
    return tr


def _unknown(ctx):
    try:
        known = {k["signature"] for k in json.load(open(os.path.join(vlib.VERIF, "known_findings.json")))
                 if k.get("property") == ctx.pid and k.get("status") == "open"}
    except Exception:
        known = set()
    return [v for v in ctx.violations if v.get("sig") not in known]


def run(ctx):
    ctx.level = "model_checking"
    ctx.rule = ("replay cases = witness histories of AcmeAccount enumerated by TLC under a VIEW (one per distinct model state and "
                "last event; initial CA table x preset KID x cached directory x sequence of public calls x reply class per request "
                "incl. injected 500 / transport error / malformed / unauthorized / lost reply / directory failure), each played on the "
                "real acme.Client; distinct = distinct history; random sessions = seeded, two goroutines, one recorded trace each, "
                "validated by AcmeAccount_Trace")
    ctx.assumptions = [
        "two account keys and one certificate key (ECDSA P-256), two account URLs, one certificate; RetryBackoff returns 0 (no retries: C50's subject); nonces are handed out and not judged (C50)",
        "the fake CA identifies the signer by verifying the signature under every known key with its own JWS reader (JSON, base64url, RFC 7518 R||S) -- trusted base: Go crypto/ecdsa, crypto/hmac, encoding/json",
        "AccountKeyRollover is never run concurrently with other calls in the driver (its documentation: updating Key is not concurrency safe); the model instance without that restriction must and does show a stale signer",
        "a CA that accepted a request and lost the reply is part of the environment ('lost'); A4_Agreement is stated for executions without such a loss",
        "goroutine interleavings of the random sessions are not determined by the seed; the verdict is by trace validation of what was recorded",
    ]
    if ctx.replay:
        rep = json.load(open(ctx.replay))
        d = (rep.get("violation") or {}).get("detail") or {}
        if isinstance(d, dict) and d.get("case"):
            ctx.absorb(ctx.go_test("x09", "TestReplay", cases=[d["case"]], timeout=300))
            return
        ctx.notes.append("replay file carries no single case; running the whole tier")

    docs = ["Doc_noMutex", "Doc_commitEarly", "Doc_keepNew", "Doc_cache409", "Doc_concurrentRollover"]
    if ctx.thorough:
        cfgs = ["MCseq5", "MCconc", "MCconc4", "MCconc5", "MC3callers4"] + docs + ["Gen5", "Gen6s"]
        workers = {"MCseq5": 2, "MCconc": 4, "MCconc4": 8, "MCconc5": 3, "MC3callers4": 8}
    else:
        cfgs = ["MCseq", "MCconcq"] + docs + ["Gen3"]
        workers = {"MCseq": 2, "MCconcq": 8}
    for d in docs:
        workers[d] = 1
    if os.environ.get("VERIF_SKIP_MC"):          # development aid for mutation runs; recorded in the evidence
        cfgs = [c for c in cfgs if _isgen(c)]
        ctx.skipped.append("VERIF_SKIP_MC set: exhaustive model checking skipped")
    tpr = ctx.tmp("x09_random.ndjson")

    def early_go():
        return ctx.go_test("x09", "TestRandom", timeout=900, race=True,
                           env={"VERIF_TRACES": tpr, "X09_SESSIONS": ctx.pick(90, 3000)})
    with cf.ThreadPoolExecutor(max_workers=1) as ex:
        fut = ex.submit(early_go)
        res = _par_tlc(ctx, cfgs, workers)
        early = fut.result()
    ctx.absorb(early, validated=False)
    rnd = _load(tpr)
    ctx.log("random sessions: %d recorded (%s calls, %s events), %d direct violations"
            % (len(rnd), early.get("extra", {}).get("random_calls"), early.get("extra", {}).get("random_events"), len(early.get("violations") or [])))
    if _unknown(ctx):
        return

    nval = [0]

    def validate_random():
        if not ctx.thorough:
            return                          # quick: one JVM validates random and replay logs together (below)
        nval[0] += ctx.validate_traces("AcmeAccount_Trace", rnd, cfg="AcmeAccount_Trace.cfg", sig_prefix="x09-trace-rejected",
                                       timeout=1500, max_rejects=3)
    tp = ctx.tmp("x09_replay_traces.ndjson")
    with cf.ThreadPoolExecutor(max_workers=1) as ex:
        fut = ex.submit(validate_random)
        first = True
        for g in [c for c in cfgs if _isgen(c)]:
            traces = res[g].traces
            if not traces:
                raise vlib.Infra("generator %s produced no witness histories" % g)
            env = {"X09_TRACE_EVERY": ctx.pick(12, 40)}
            if first:
                env["VERIF_TRACES"] = tp
            first = False
            r = ctx.go_test("x09", "TestReplay", cases=traces, timeout=1500, env=env)
            ctx.log("%s: %d witness histories replayed on the real client, %d violations" % (g, r.get("evaluations", 0), len(r.get("violations") or [])))
            ctx.absorb(r, validated=True)
            res[g].traces = None
            if _unknown(ctx):
                break
        fut.result()
    if _unknown(ctx):
        return
    rep = _load(tp)
    both = rep if ctx.thorough else rnd + rep
    if both:
        nval[0] += ctx.validate_traces("AcmeAccount_Trace", both, cfg="AcmeAccount_Trace.cfg", sig_prefix="x09-trace-rejected",
                                       timeout=1500, max_rejects=3)
    ctx.log("recorded traces validated by AcmeAccount_Trace: %d (random %d, sampled replay logs %d)" % (nval[0], len(rnd), len(rep)))
    ctx.extra["recorded_traces_validated"] = nval[0]
    ctx.exhaustive = False
    ctx.notes.append("model checking is exhaustive within the stated bounds; the replay covers one witness per distinct (model state, last "
                     "event) of the sequential instances (quick: 3 calls with every failure class; thorough: 5 calls with every failure class and 6 calls "
                     "with 500 / lost reply); concurrent behaviour is sampled (seeded sessions of two goroutines) and judged by trace validation")
    ctx.notes.append("observations, not charged: (1) a nil-key request whose account lookup finds nothing goes out in jwk form signed with "
                     "Client.Key (documented in postNoRetry; RFC 8555 6.2 wants kid, a CA refuses it); (2) UpdateReg / DeactivateReg / "
                     "AccountKeyRollover answer ErrNoAccount for ANY failure of the hidden account lookup (500, transport error, "
                     "unauthorized), not only for accountDoesNotExist; (3) Register on an existing account returns (nil, "
                     "ErrAccountAlreadyExists) and caches the KID; (4) GetReg does not cache the KID; (5) DeactivateReg keeps the "
                     "cached KID, later requests are refused by the CA as unauthorized; (6) RevokeCert with the account key passed "
                     "explicitly is sent in jwk form; reason 0 is sent as \"reason\":0; (7) UpdateReg / DeactivateReg take the URL from one "
                     "accountKID call and the kid from a second one (they differ only after a lost key-change reply plus a concurrent "
                     "Register); (8) the Account returned by UpdateReg has an empty URI when the CA sends no Location (RFC 8555 7.3.2 "
                     "does not require one); (9) after an accepted key change whose reply was lost the client keeps signing with the "
                     "old key (inherent to the protocol)")
