"""C07 - hash state marshaling is transparent and rejects corrupt states (BLAKE2b, BLAKE2s, legacy Keccak).

Specs: spec/Blake2Buf.tla (implementation-shaped digest state with MarshalBinary / UnmarshalBinary-into-a-fresh-hash /
UnmarshalBinary of corrupted size and offset bytes; TypeOK; WriteDefined / SumDefined = where the slice expressions
of Write and Sum are in range; refinement of spec/Blake2Hash.tla incl. Transparent), spec/C07Keccak.tla (state shape of
the legacy Keccak sponge: n, rate, array width, direction; mode panics vs range panics; Marshal/Unmarshal),
spec/C07Fields.tla (the acceptance decision on the range-carrying bytes at the real scale, exhaustively over all byte
values: Accept => every later call is defined), generators spec/Blake2Buf_GenAll.tla, spec/C07Keccak_Gen.tla.

(a) transparency: histories with MarshalBinary/UnmarshalBinary replayed on the real hashes; the restored hash is
compared call by call with a real hash that never was marshaled; (b) corruption: the model's boundary combinations,
free-field bytes, damaged magic/length and seeded random strings are fed to the real UnmarshalBinary; nil error followed
by a panic in Write/Sum/Reset is the violation."""
import json
import vlib
from c05_common import par_tlc, judge_mc, genall_cfg, write_ndjson


def kgen_cfg(depth, tiny):
    return ("SPECIFICATION Spec\nCONSTANTS\n  Depth = %d\n  Which <- WBoth\n  Tiny = %s\nINVARIANTS Emit\nCHECK_DEADLOCK FALSE\n"
            % (depth, "TRUE" if tiny else "FALSE"))


def run(ctx):
    ctx.level = "model_checking"
    ctx.rule = ("(a) transparency cases = (hash kind, digest size, key, call history): every history of exactly Depth calls (quick 4, thorough 5) from "
                "{Write(1,B,B+1), Sum, Reset, MarshalBinary, UnmarshalBinary into a fresh hash} for BLAKE2b/BLAKE2s unkeyed and keyed (keyed: MarshalBinary refuses) "
                "and from {Write(1,rate,rate+1), Read(1,rate+1), Sum, Reset, MarshalBinary, UnmarshalBinary} for legacy Keccak-256/512, enumerated by TLC at the real "
                "block sizes / rates; BLAKE2b sizes {64,32,1,20,48} (thorough: 1..64 on every 8th history), BLAKE2s 32 and 16 (keyed); each also re-run with a "
                "marshal/unmarshal round trip after every call; (b) corruption cases = (format, valid base state after 0,1,B-1,B,B+1,300 bytes [Keccak: plus a "
                "squeezing state], bytes planted): all combinations of the boundary values {0,1,max valid,max valid+1,0x7f,0x80,0xff} of the fields the model names "
                "(size x offset; rate x n x direction) printed by TLC from C07Fields with predicted outcomes, every (quick: every 7th of block/a) free-field byte at the "
                "boundary values, each magic byte damaged, 6 wrong lengths, seeded random strings of 4 kinds; after a nil-error UnmarshalBinary five call sequences "
                "over Write(1), Write(200), Sum, Reset under recover; distinct = distinct (kind, size, base, planted bytes | history)")
    ctx.assumptions = [
        "transparency is judged against a real hash of the same kind that never was marshaled and absorbed the same bytes (no byte oracle)",
        "a panic 'sha3: Write after Read' / 'sha3: Sum after Read' on a state whose direction byte says squeezing is the documented behaviour of a sponge state that "
        "MarshalBinary legitimately produces after Read (the original would panic identically): it is not counted as a corruption panic; any other panic is",
        "block size / rate scaled to 4 in the exhaustive dynamic models; the acceptance decision itself is checked at the real scale over all 65536 (size, offset) "
        "pairs per BLAKE2 format and all (n, direction) pairs for Keccak (thorough; quick: boundary values)",
        "the models' acceptance test is the repaired design (size in 1..Size, offset <= BlockSize); how the real code decides is observed, not assumed",
        "random strings are seeded samples, not an enumeration of all byte strings",
    ]
    Q = not ctx.thorough
    mc = {
        "mc_refine": dict(module="Blake2Buf_MC", cfg="Blake2Buf_Refine_K0MQ.cfg" if Q else "Blake2Buf_Refine_K0.cfg", workers=ctx.pick(3, 6), coverage=ctx.thorough,
                          note="refinement Blake2Buf => Blake2Hash incl. Marshal/Unmarshal transparency, unkeyed, B=4"),
        "mc_corrupt1": dict(module="Blake2Buf_MC", cfg="Blake2Buf_Corrupt1Q.cfg" if Q else "Blake2Buf_Corrupt1.cfg", workers=ctx.pick(3, 6),
                            note="UnmarshalBinary with range checks on corrupted size/offset bytes: TypeOK preserved, no call undefined"),
        "mc_keccak": dict(module="C07Keccak_MC", cfg="C07Keccak_MC_Q.cfg" if Q else "C07Keccak_MC.cfg", workers=ctx.pick(3, 6), coverage=ctx.thorough,
                          note="Keccak sponge state shape: TypeOK, definedness, transparency, mode panics exact, corrupted rate/n/direction bytes"),
        "fields1": dict(module="C07Fields", cfg="C07Fields_Check1Q.cfg" if Q else "C07Fields_Check1.cfg", workers=2,
                        note="real-scale acceptance decision: Accept => all later calls defined; emits the boundary cases"),
    }
    doc = {}
    if ctx.thorough:
        doc = {
            "doc_corrupt0": dict(module="Blake2Buf_MC", cfg="Blake2Buf_Corrupt0.cfg", workers=2, expect_violation=True,
                                 note="BLAKE2 UnmarshalBinary WITHOUT range checks: expected counterexample (Write/Sum undefined after load)"),
            "doc_fields0": dict(module="C07Fields", cfg="C07Fields_Check0.cfg", workers=1, expect_violation=True,
                                note="real-scale decision WITHOUT range checks: expected counterexample"),
            "doc_keccak_nocheck": dict(module="C07Keccak_MC", cfg="C07Keccak_MC_NoCheckN.cfg", workers=2, expect_violation=True,
                                       note="Keccak UnmarshalBinary without the n <= rate test: expected counterexample (non-vacuity)"),
        }
    gens = {
        "gen_b": dict(module="Blake2Buf_GenAll", cfg_text=genall_cfg(4, "AllOps", "WAll", 2), workers=2),
        "gen_k": dict(module="C07Keccak_Gen", cfg_text=kgen_cfg(ctx.pick(4, 5), True), workers=ctx.pick(1, 3)),
    }
    if ctx.thorough:     # unkeyed: one call deeper; keyed hashes refuse to marshal, depth 3 with the full write alphabet suffices
        gens["gen_b"] = dict(module="Blake2Buf_GenAll", cfg_text=genall_cfg(5, "AllOps", "WUnkeyed", 2), workers=5)
        gens["gen_bk"] = dict(module="Blake2Buf_GenAll", cfg_text=genall_cfg(3, "AllOps", "WKeyed", 1), workers=1)
    if ctx.replay:
        d = json.load(open(ctx.replay))["violation"]["detail"]
        res = par_tlc(ctx, {"fields1": mc["fields1"]})
        judge_mc(ctx, res)
        fp = write_ndjson(ctx, "fields.ndjson", _dedupe(res["fields1"].traces))
        cases = []
        if d.get("history"):
            w = {"blake2b": "b", "blake2s": "s"}.get(d.get("kind"))
            cases = [{"w": (w + ("1" if d.get("klen") else "0")) if w else {"keccak256": "k256", "keccak512": "k512"}[d["kind"]], "h": d["history"]}]
        ctx.absorb(ctx.go_test("c07", "TestReplay", cases=cases, timeout=900, env={"VERIF_C07_FIELDS": fp, "VERIF_C07_RANDOM": 2000}))
        return
    jobs = {}
    jobs.update(mc); jobs.update(doc); jobs.update(gens)
    res = par_tlc(ctx, jobs, timeout=2400)
    # the corruption disjunct of Next (UnmarshalCorrupt over empty value sets) is switched off in the refinement config
    judge_mc(ctx, {k: res[k] for k in mc}, disabled={"mc_refine": ["Next"]})
    for k in doc:
        r = res[k]
        if r.ok:
            raise vlib.Infra("%s no longer yields its documented counterexample: the model lost its teeth" % k)
        ctx.extra.setdefault("documented_counterexamples", []).append("%s: %s violated as expected (%s)" % (k, r.violated, doc[k]["note"]))
    cases = []
    for k in gens:
        r = res[k]
        if not r.ok or len(r.traces) < 100:
            raise vlib.Infra("history generator %s failed or produced too little: %s" % (k, (r.cex or r.raw[-2000:])))
        ctx.log("%s: %d histories in %.0fs" % (k, len(r.traces), r.wall))
        cases += [{"w": t["w"], "h": t["h"]} for t in r.traces]
    fields = _dedupe(res["fields1"].traces)
    if len(fields) < 600:
        raise vlib.Infra("C07Fields emitted only %d boundary cases" % len(fields))
    fp = write_ndjson(ctx, "fields.ndjson", fields)
    r = ctx.go_test("c07", "TestReplay", cases=cases, timeout=1800, env={"VERIF_C07_FIELDS": fp, "VERIF_C07_RANDOM": ctx.pick(3000, 60000)})
    ctx.log("replay: %d evaluations, %d violations" % (r.get("evaluations", 0), len(r.get("violations") or [])))
    ex = r.get("extra") or {}
    for k, v in sorted(ex.items()):
        if k.endswith("informational") or "informational:" in k:
            if v:
                ctx.notes.append("informational: %s = %s" % (k, v))
    ctx.absorb(r)
    ctx.exhaustive = True
    ctx.notes.append("exhaustive over the model's boundary values, bases and the history alphabets at the depth bound; random strings and free bytes sampled")


def _dedupe(traces):
    seen, out = set(), []
    for t in traces:
        k = json.dumps(t, sort_keys=True)
        if k not in seen:
            seen.add(k)
            out.append(t)
    return out
