"""Helpers shared by checks/C05.py, C06.py, C07.py (BLAKE2 family)."""
import concurrent.futures, os, subprocess, json
import vlib

PY3 = "/root/.pyenv/versions/3.11.7/bin/python3"


def par_tlc(ctx, jobs, timeout=1500):
    """Run independent TLC configs in threads (JVM start dominates on the loaded box).
    jobs: name -> kwargs for ctx.tlc (count=False is forced; the caller adds the counts)."""
    res = {}
    with concurrent.futures.ThreadPoolExecutor(max_workers=max(1, len(jobs))) as ex:
        futs = {k: ex.submit(ctx.tlc, timeout=timeout, count=False, **kw) for k, kw in jobs.items()}
        for k, f in futs.items():
            res[k] = f.result()
    return res


def judge_mc(ctx, res, expected_cex=(), disabled=None):
    """Model-checking results: a counterexample in the design model alone is never a verdict.
    disabled: name -> actions switched off by that configuration's constants (not reported as never taken)."""
    for k, r in res.items():
        if k in expected_cex:
            continue
        if not r.ok:
            raise vlib.Infra("design model %s: %s violated:\n%s" % (k, r.violated, (r.cex or r.raw[-3000:])[:6000]))
        ctx.states += r.distinct
        ctx.transitions += r.generated
        zero = [a for a in r.coverage_zero if a not in (disabled or {}).get(k, ())]
        if zero:
            ctx.notes.append("actions never taken in %s: %s" % (k, zero))
        ctx.log("%s: %d distinct states, %d generated, %d TRACE lines, %.0fs" % (k, r.distinct, r.generated, len(r.traces), r.wall))


def genall_cfg(depth, ops="HashOps", which="WAll", small=0):
    """cfg of spec/Blake2Buf_GenAll.tla: histories of exactly `depth` calls at the real block sizes
    (instances b0, b1, s0, s1 = BLAKE2b/BLAKE2s, unkeyed/keyed) in one TLC run."""
    return ("SPECIFICATION Spec\nCONSTANTS\n  Depth = %d\n  Ops <- %s\n  Which <- %s\n  Small = %d\n"
            "INVARIANTS Emit\nCHECK_DEADLOCK FALSE\n" % (depth, ops, which, small))


def write_ndjson(ctx, name, rows):
    p = ctx.tmp(name)
    with open(p, "w") as fh:
        for x in rows:
            fh.write(json.dumps(x, separators=(",", ":")) + "\n")
    return p


_HASHLIB = r'''
import sys, json, hashlib
def patbyte(seed, i):
    if seed == 0: return 0
    if seed == 1: return 255
    return ((seed*131 + i*197 + (i//7)*31 + 17) ^ (((i % 251)*(i % 241) + seed) % 256)) % 256
def pat(seed, n): return bytes(patbyte(seed, i) for i in range(n))
bad = []; n = 0
for line in open(sys.argv[1]):
    v = json.loads(line)
    if v["t"] not in ("b", "s"): continue
    f = hashlib.blake2b if v["t"] == "b" else hashlib.blake2s
    got = f(pat(v["ms"], v["m"]), digest_size=v["a"], key=pat(v["ks"], v["k"])).digest()
    n += 1
    if list(got) != v["bytes"]: bad.append([v["t"], v["a"], v["k"], v["m"]])
print(json.dumps({"n": n, "bad": bad}))
'''


def hashlib_opinion(ctx, vecpath):
    """Optional third opinion on the oracle: CPython's hashlib.blake2b/blake2s (libb2-derived reference code)
    against the TLC-evaluated digests.  Skipped silently if that interpreter is absent.  A disagreement is an
    oracle problem (Infra), never a verdict about golang/crypto."""
    if not os.path.exists(PY3):
        return None
    sp = ctx.tmp("hashlib_opinion.py")
    open(sp, "w").write(_HASHLIB)
    try:
        p = subprocess.run([PY3, sp, vecpath], capture_output=True, text=True, timeout=120)
        r = json.loads(p.stdout)
    except Exception:
        return None
    if r["bad"]:
        raise vlib.Infra("hashlib disagrees with the TLC-evaluated PrimBlake2 digests on %s" % r["bad"][:5])
    return r["n"]
