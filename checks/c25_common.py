"""Helpers shared by checks/C25.py and checks/C26.py (spec/SSHPacket.tla, harness/c25)."""
import concurrent.futures as cf
import vlib

MODULE = "SSHPacket_MC"


def par_tlc(ctx, jobs, max_parallel=8):
    """Run several TLC instances of SSHPacket_MC concurrently (each start costs seconds on this image).
    jobs: list of dicts {cfg, expect (None | invariant name expected to be violated), kw}.
    Returns {cfg: TLCResult}.  State counts are added to the evidence here (count=False in the threads).
    A model-level counterexample where none is expected, or none where one is expected, is Infra."""
    def one(j):
        kw = dict(j.get("kw") or {})
        kw.setdefault("timeout", 1500)
        return ctx.tlc(MODULE, cfg="SSHPacket_%s.cfg" % j["cfg"], count=False, expect_violation=bool(j.get("expect")),
                       note=j.get("note", ""), **kw)
    res = {}
    with cf.ThreadPoolExecutor(max_workers=max_parallel) as ex:
        futs = {j["cfg"]: ex.submit(one, j) for j in jobs}
        errs = []
        for j in jobs:
            try:
                res[j["cfg"]] = futs[j["cfg"]].result()
            except vlib.Infra as e:
                errs.append(str(e))
        if errs:
            raise vlib.Infra("; ".join(errs)[:6000])
    for j in jobs:
        r = res[j["cfg"]]
        gen = j.get("gen")
        if j.get("expect"):
            if r.violated != j["expect"]:
                raise vlib.Infra("SSHPacket/%s: expected the design-level counterexample to %s (it documents a limit of the design), TLC says violated=%r"
                                 % (j["cfg"], j["expect"], r.violated))
        elif not r.ok:
            raise vlib.Infra("design model SSHPacket/%s: %s violated (model-level counterexample, not reproduced on code):\n%s"
                             % (j["cfg"], r.violated or "postcondition", (r.cex or r.raw[-3000:])[:6000]))
        if not gen:
            ctx.states += r.distinct
            ctx.transitions += r.generated
        ctx.log("TLC %-14s %8d generated %8d distinct  %5.1fs%s%s" % (j["cfg"], r.generated, r.distinct, r.wall,
                "  (expected counterexample: %s)" % r.violated if j.get("expect") else "",
                "  %d behaviours emitted" % len(r.traces) if gen else ""))
    return res


def split_cases(traces):
    """Generator output -> (table lines (deduplicated), behaviour cases)."""
    table, cases = [], []
    for t in traces:
        if "ciphers" in t:
            if not table:
                table.append(t)
        else:
            cases.append(t)
    return table, cases


def check_table(res):
    mism = (res.get("extra") or {}).get("table_mismatch")
    if mism:
        raise vlib.Infra("the specification's cipher/MAC tables and the package's registrations differ (extend spec/SSHPacket.tla "
                         "CipherTable/MacTable and harness/c25/ref.go first): %s" % "; ".join(mism))
    if "table_mismatch" in (res.get("extra") or {}):
        del res["extra"]["table_mismatch"]


def unknown_violations(pid, res):
    """Violations of a harness result whose signature is not an open known finding of property pid."""
    import json, os
    known = set()
    kf = os.path.join(vlib.VERIF, "known_findings.json")
    if os.path.exists(kf):
        known = {k.get("signature") for k in json.load(open(kf)) if k.get("property") == pid and k.get("status") == "open"}
    return [v for v in (res.get("violations") or []) if v.get("sig") not in known]
