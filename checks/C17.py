"""C17 - bcrypt hashes verify exactly the right passwords and interoperate.

Spec: spec/Bcrypt.tla.  Part A (Bcrypt_MCA): the key the Blowfish schedule sees is the cyclic expansion of
password||NUL to 72 bytes; TLC checks, exhaustively over all password pairs up to a length bound over {a, b, NUL} on a
scaled key length, that the transcription of the consumption loop equals that expansion and the consequences the
property names (round trip, >72 refused by Generate, first-72-bytes rule for long candidates, the 71-byte+NUL boundary,
no near-miss of equal length verifies, the p||NUL||p periodicity), then evaluates SameKey at the real key length on
families of (password, candidate) pairs.  Part B (Bcrypt_MCB): transcription of newFromHash / Cost /
CompareHashAndPassword over byte strings; TLC mutates canonical strings (every position x replacement classes,
truncations, extensions, double mutations) and checks totality, 'never verifies a different key', grammar acceptance.
Binding R: every emitted pair / string is run on the real bcrypt package; libxcrypt (ctypes) is the independent
implementation for the interoperation clauses, both directions, $2a$/$2b$/$2y$."""
import concurrent.futures, json, os, subprocess, sys
import vlib

HERE = os.path.dirname(os.path.abspath(__file__))
XCRYPT = os.path.join(HERE, "c17_xcrypt.py")


def _py(args, timeout=600):
    p = subprocess.run([sys.executable, XCRYPT] + args, capture_output=True, text=True, timeout=timeout)
    objs = []
    for line in p.stdout.splitlines():
        try:
            objs.append(json.loads(line))
        except Exception:
            pass
    return p.returncode, objs, p.stderr


def run(ctx):
    ctx.level = "model_checking"
    ctx.rule = ("part A cases = (password, candidate) pairs enumerated by TLC at key length 72: patterned passwords of lengths "
                "0..80 (NUL and high bytes) x 16 candidate constructions (same, one-byte flips, append NUL / byte, drop last, "
                "p||NUL||p periodic forms, 71/72-byte prefixes with junk), costs 4..6; distinct = distinct (p, q); "
                "part B cases = byte strings obtained by TLC from canonical $2a$/$2b$/$2y$/$2$ strings by every single-position replacement "
                "from a class menu (separators, digits, signs, NUL, 0xff, newline, '=', alphabet and non-alphabet characters), every truncation, "
                "extensions, and (thorough) double replacements in the header; distinct = distinct byte strings; each string is given to Cost and to "
                "CompareHashAndPassword with the right and a wrong password")
    ctx.assumptions = [
        "EksBlowfish is not transcribed: a hash is abstractly (expanded key, cost, salt); distinct triples are assumed to give distinct hash fields",
        "'malformed' strings for which an error is demanded = the classes the package has errors for (too short, first byte not '$', major version above '2', "
        "cost not two digits in 4..31, non-alphabet character in the salt [Compare only]); strings outside the $2[aby]$ grammar that the parser tolerates "
        "(unchecked separator bytes, any minor version, major below '2', '+d' costs, trailing bytes, low bits of the last salt character) are recorded informationally, "
        "not judged; accepting a wrong password or a changed hash field is always judged",
        "libxcrypt through ctypes is the independent OpenBSD-derived implementation; C strings cannot carry NUL, so interoperation is checked for NUL-free passwords; "
        "bytes 0xff are left out of the patterns because libxcrypt's $2a$ deliberately deviates for some 0xff sequences (sign-extension countermeasure)",
    ]
    mcx = ctx.pick("Bcrypt_MCA_X4.cfg", "Bcrypt_MCA_X6.cfg")
    jobs = {
        "pairs": dict(module="Bcrypt_MCA", cfg=mcx, workers=ctx.pick(4, 10), note="key-equivalence theorems, all password pairs over {a,b,NUL}, scaled key length 4"),
        "genA": dict(module="Bcrypt_MCA", cfg=ctx.pick("Bcrypt_MCA_GenQ.cfg", "Bcrypt_MCA_GenT.cfg"), workers=2, note="families at key length 72 + SameKey verdicts"),
        "genB": dict(module="Bcrypt_MCB", cfg=ctx.pick("Bcrypt_MCB_Q.cfg", "Bcrypt_MCB_T.cfg"), workers=ctx.pick(3, 6), note="hash-string mutations: parser transcription checks + predictions"),
    }
    if ctx.replay:
        d = json.load(open(ctx.replay))["violation"]["detail"]
        c = d.get("case")
        test = "TestGrammar" if "tmpl" in c else "TestKeys"
        ctx.absorb(ctx.go_test("c17", test, cases=[c], timeout=600))
        return
    res = {}
    with concurrent.futures.ThreadPoolExecutor(max_workers=len(jobs)) as ex:
        futs = {k: ex.submit(ctx.tlc, timeout=1500, **kw) for k, kw in jobs.items()}
        for k, f in futs.items():
            res[k] = f.result()
    for k, r in res.items():
        if not r.ok:
            raise vlib.Infra("design model %s: %s violated (model-level, not a verdict):\n%s" % (k, r.violated, (r.cex or "")[:4000]))
    casesA, casesB = res["genA"].traces, res["genB"].traces
    if len(casesA) < 100 or len(casesB) < 1000:
        raise vlib.Infra("generators produced too little: %d / %d" % (len(casesA), len(casesB)))
    if not any(c["same"] for c in casesA) or all(c["same"] for c in casesA):
        raise vlib.Infra("family is vacuous: SameKey verdicts all equal")
    ctx.log("TLC: %d password pairs, %d hash strings" % (len(casesA), len(casesB)))

    # foreign hashes from libxcrypt for the hashed passwords
    foreign = gohashes = None
    rc, objs, err = _py(["probe"])
    have = rc == 0 and objs and objs[-1].get("ok")
    if have:
        pws = ctx.tmp("c17_pws.ndjson")
        seen = set()
        with open(pws, "w") as fh:
            for c in casesA:
                h = bytes(c["hp"]).hex()
                if h not in seen:
                    seen.add(h)
                    fh.write(json.dumps({"pw": h}) + "\n")
        foreign = ctx.tmp("c17_foreign.ndjson")
        rc, objs, err = _py(["gen", pws, foreign, str(ctx.seed)])
        if rc != 0 or not objs or not objs[-1].get("generated"):
            raise vlib.Infra("libxcrypt hash generation failed: %s" % err[-500:])
        ctx.extra["libxcrypt_hashes_generated"] = objs[-1]["generated"]
        gohashes = ctx.tmp("c17_gohashes.ndjson")
    else:
        ctx.skipped.append("libxcrypt (libcrypt.so via ctypes) not usable: interoperation clauses skipped")
    env = {}
    if foreign:
        env = {"VERIF_C17_FOREIGN": foreign, "VERIF_C17_GOHASHES": gohashes}
    ra = ctx.go_test("c17", "TestKeys", cases=casesA, timeout=900, env=env)
    ctx.absorb(ra)
    rb = ctx.go_test("c17", "TestGrammar", cases=casesB, timeout=1500)
    ctx.absorb(rb)
    ex = rb.get("extra", {})
    ctx.notes.append("informational (not judged): %s strings outside the $2[aby]$ grammar verify the right password (parser leniency: unchecked separators, minor version, "
                     "major < '2', '+d' cost, trailing bytes, low bits of the last salt character); error class equals the transcription on %s strings, differs on %s"
                     % (ex.get("strings_outside_grammar_that_verify_informational"), ex.get("error_class_agrees_with_transcription"),
                        ex.get("error_class_differs_from_transcription_informational")))
    if have and gohashes and os.path.exists(gohashes):
        rc, objs, err = _py(["verify", gohashes])
        if rc != 0 or not objs or "checked" not in objs[-1]:
            raise vlib.Infra("libxcrypt verification run failed: %s" % err[-500:])
        for o in objs:
            if "mismatch" in o:
                c = o["mismatch"]
                ctx.violation("bcrypt-hash-%s-by-libxcrypt" % ("rejected" if c["same"] else "accepted-for-different-key"),
                              "a hash made by GenerateFromPassword is judged differently by libxcrypt than the key-equivalence relation says", o)
        ctx.extra["go_hashes_verified_by_libxcrypt"] = objs[-1]["checked"]
        ctx.evaluations += objs[-1]["checked"]
    ctx.exhaustive = True
    ctx.notes.append("exhaustive over the model's bounded families and mutation menus; password bytes patterned, salts random")
