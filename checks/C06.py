"""C06 - BLAKE2X extendable output follows the BLAKE2X specification.

Specs: spec/Blake2Xof.tla (abstract XOF objects: Write / Read(k) / Clone / Reset, declared length incl.
OutputLengthUnknown, io.EOF exactly at the declared length, Write-after-Read panics, Clone independence; output bytes
identified as (message, node, node digest length, index)), spec/Blake2XofImpl.tla (transcription of xof.Read's
remaining / offset / nodeOffset / cfg[0] bookkeeping incl. the short last node; refinement Impl => abstract),
spec/Blake2Xof_Gen.tla (histories at the real node sizes), spec/PrimBlake2.tla + spec/Blake2_Vec.tla (TLC-evaluated
BLAKE2Xb/BLAKE2Xs output slices: root hash, per-node hashes with node offset and final-node length).

The Go harness replays every history on real blake2b.NewXOF / blake2s.NewXOF objects and compares every Read
(bytes, count, io.EOF), every Write (panic or not) and both branches after every Clone."""
import json
import vlib
from c05_common import par_tlc, judge_mc, write_ndjson


def gen_cfg(depth, big):
    return ("SPECIFICATION Spec\nCONSTANTS\n  Depth = %d\n  Which <- WBoth\n  Big = %s\nINVARIANTS Emit\nCHECK_DEADLOCK FALSE\n"
            % (depth, "TRUE" if big else "FALSE"))


def run(ctx):
    ctx.level = "model_checking"
    ctx.rule = ("cases = (algorithm, declared length L, key length, call history): (1) TLC-evaluated output slices (spec/Blake2_Vec.tla: whole streams for L "
                "around the node size, windows at the end of L = 1000 / 65534 / 70000 and of unknown-length streams incl. beyond 2^16 bytes for BLAKE2Xs) read back "
                "with 3 chunkings; (2) every history of exactly 3 calls over two object slots from {Write(3), Read(0,1,N-1,N+1,2N+1,200[,N,70000]), Clone, Reset} "
                "for L in {1,N-1,N,N+1,2N+1,1000,65534|70000,unknown[,...]} enumerated by TLC from Blake2Xof at the real node sizes (thorough: plus TLC-simulated "
                "histories of 8 calls), each replayed with key lengths {0,max[,1]}; (3) whole streams read in seeded random chunks of 0..200 bytes with a clone forked at a "
                "random position, and declared lengths 1..N+2 plus a sample up to 70000/65534 read in one call, judged by the Go transcription validated against (1) "
                "in the same run; distinct = distinct (algorithm, L, key length, history / chunking seed)")
    ctx.assumptions = [
        "definition = spec/PrimBlake2.tla (XofSliceB/XofSliceS) evaluated by TLC, anchored by blake2-kat.json BLAKE2Xb/BLAKE2Xs ASSUMEs; beyond the TLC table a Go "
        "transcription (harness/c05ref) validated against the table in the same run",
        "node size scaled to 4 and the unknown-length limit to 2-3 nodes in the exhaustive refinement runs; histories are generated and replayed at the real node sizes; "
        "the real unknown-length limit (2^32 nodes = 256 / 128 GiB) is out of reach and not exercised",
        "io.EOF returned together with the last bytes would be accepted (the property only fixes how many bytes precede io.EOF); the code returns it on the next call",
        "the digest buffering underneath xof.Write is C05's subject (Blake2Buf); here Write is one step",
    ]
    Q = not ctx.thorough
    mc = {"mc_xof": dict(module="Blake2Xof_MC", cfg="Blake2Xof_MC_%s.cfg" % ("Q" if Q else "T"), workers=ctx.pick(4, 8), coverage=ctx.thorough,
                         note="refinement Blake2XofImpl => Blake2Xof, N=4, two objects, XofInv, EOF exactness, write mode, clone independence")}
    vec = {"vec": dict(module="Blake2_Vec", cfg="Blake2_Vec_C06%s.cfg" % ("Quick" if Q else "Thorough"), workers=ctx.pick(4, 8))}
    if ctx.replay:
        d = json.load(open(ctx.replay))["violation"]["detail"]
        res = par_tlc(ctx, vec)
        judge_mc(ctx, res)
        vp = write_ndjson(ctx, "vec.ndjson", res["vec"].traces)
        cases = [{"w": d["alg"], "L": d["L"], "h": d["history"]}] if d.get("history") else []
        ctx.absorb(ctx.go_test("c06", "TestReplay", cases=cases, timeout=900, env={"VERIF_C06_VEC": vp}))
        return
    gens = {"gen": dict(module="Blake2Xof_Gen", cfg_text=gen_cfg(3, ctx.thorough), workers=ctx.pick(2, 4))}
    if ctx.thorough:
        gens["sim"] = dict(module="Blake2Xof_Gen", cfg_text=gen_cfg(8, True), workers=1, simulate=1000, depth=9)
    jobs = {}
    jobs.update(mc); jobs.update(vec); jobs.update(gens)
    res = par_tlc(ctx, jobs, timeout=2400)
    judge_mc(ctx, {k: res[k] for k in list(mc) + ["vec"]})
    cases, seen = [], set()
    for k in gens:
        r = res[k]
        if not r.ok or len(r.traces) < 100:
            raise vlib.Infra("history generator %s failed or produced too little: %s" % (k, (r.cex or r.raw[-2000:])))
        for t in r.traces:      # TLC's simulator evaluates the emitting invariant more than once per behaviour: drop duplicates
            key = json.dumps(t, separators=(",", ":"))
            if key not in seen:
                seen.add(key)
                cases.append(t)
        ctx.log("%s: %d TRACE lines in %.0fs (%d distinct histories so far)" % (k, len(r.traces), r.wall, len(cases)))
    vp = write_ndjson(ctx, "vec.ndjson", res["vec"].traces)
    r = ctx.go_test("c06", "TestReplay", cases=cases, timeout=1500,
                    env={"VERIF_C06_VEC": vp, "VERIF_C06_LONG": ctx.pick(70000, 210000), "VERIF_C06_LONGREPS": ctx.pick(1, 6),
                         "VERIF_C06_LENGTHS": ctx.pick(80, 1200)})
    ctx.log("replay: %d evaluations, %d violations" % (r.get("evaluations", 0), len(r.get("violations") or [])))
    ctx.absorb(r)
    ctx.exhaustive = True
    ctx.notes.append("exhaustive over the model's read-size / length alphabets at depth 3; key/message contents sampled")
