"""X07 (growth) -- SSH transport prelude and transport-level message handling.

Spec: spec/SSHPrelude.tla -- ONE endpoint of golang.org/x/crypto/ssh (role client: NewClientConn, or server: NewServerConn)
from the first byte on the wire to an established connection and through re-keys, as a big-step state machine against
an arbitrary peer: the identification-string reader of transport.go (readVersion) as an explicit small DFA next to the
implementation-shaped line buffer, over byte classes and with the real limits 255 / 1024; transport.readPacket and
handshakeTransport.readLoop (IGNORE / DEBUG, DISCONNECT, the first packet, the strict initial key exchange); the first
key exchange with SSH_MSG_EXT_INFO (RFC 8308: server-sig-algs, ping@openssh.com "0"), ext-info-c / kex-strict only in
the first KEXINIT; SERVICE_REQUEST / SERVICE_ACCEPT for ssh-userauth; what the client does with server-sig-algs; PING /
PONG of the mux, also while a key exchange is pending (queued, flushed in order after NEWKEYS); and how every unexpected
packet ends the connection.  TLC checks P1..P5 (22 invariants) exhaustively within the bounds (all byte strings over the
class alphabet for scaled limits; all packet sequences over 25 packet kinds, bursts and ping runs), shows that the
specification WITH the implementation's two stalls (AsIs) violates NoStall, then emits one witness history per model
transition out of every distinct abstract state (plus seeded random histories) with the predicted observables per step.
Binding R: harness/x07 replays every history on the REAL library (public API only, no hook) whose peer is an independent
minimal SSH transport written from the RFCs with the standard library (curve25519-sha256, ssh-ed25519, aes128-ctr,
hmac-sha2-256 -- so the library's sequence numbers, keys and exchange hash are checked by every packet), inside
testing/synctest bubbles, comparing per step: packets written, results of the constructor and of Conn.Wait (class,
disconnect reason and message), whether the library closed the connection, and at the end the goroutines of package ssh.
Binding T: a model-independent random long-session driver (both roles, version exchanges with lines before the
identification string, noise, peer- and library-initiated re-keys with PINGs in the window, deviations) records
executions that SSHPrelude_Trace.tla validates event by event."""
import json, os, random, threading
import vlib


def _par(ctx, jobs):
    res, errs = {}, []

    def work(name, fn):
        try:
            res[name] = fn()
        except Exception as e:      # noqa
            errs.append(e)
    ths = [threading.Thread(target=work, args=j) for j in jobs]
    for t in ths:
        t.start()
    for t in ths:
        t.join()
    if errs:
        raise errs[0]
    return res


INVS = ("TypeOK P1_VerRefines P1_Accepted P1_VerFailure P1_OwnLine P1_NoWait P2_NoiseInvisible P2_Disconnect P2_DeadIsFinal "
        "P2_UnexpectedEnds NoStall P3_ServerExtInfo P3_FirstKexInitOnly P3_ClientRecords P4_PongOrder P4_PongOnlyWhenEstablished "
        "P4_Answered P4_NoPongDuringKex P4_FlushAtNewKeys P5_ServiceOnce P5_ServerRefuses P5_Established")

# vacuity: what the replayed histories must exercise
NEED_EVENTS = {"ver", "eof", "ignore", "debug", "disc", "kexinit", "kexmsg", "kexmsgbad", "newkeys", "ping", "bigping", "greq0", "extinfo",
               "svcacc", "svcreq", "svcreq2", "authok", "authfail", "authreq", "authreq2", "unk", "unimpl", "pong", "burst"}
NEED_OUT = {"ver", "kexinit", "kexmsg", "newkeys", "extinfo", "svcreq", "svcacc", "authreq", "authok", "pong"}
NEED_RES = {"ok", "err", "eof", "disc"}
NEED_WAIT = {"err", "eof", "disc"}


def coverage_of(ctx, cases):
    evs, outs, res, wait, attrs = set(), set(), set(), set(), set()
    accepted = rejected = prelines = flush = alts = weak = rekeys = 0
    for c in cases:
        st = c["steps"]
        for i, s in enumerate(st):
            evs.add(s["ev"]["k"])
            for o in s["out"]:
                outs.add(o["t"])
                attrs.add("%s:%s" % (o["t"], o["a"]))
            if i == len(st) - 1:
                res.add(s["res"]); wait.add(s["wait"])
                if s["ev"]["k"] == "ver" and s["hashLen"] > 0:
                    accepted += 1
                if s["ev"]["k"] == "ver" and s["dead"]:
                    rejected += 1
                if s["fl"]["n"] > 0:
                    flush += 1
                if s["alt"]["on"]:
                    alts += 1
                if s["weak"]:
                    weak += 1
                if s["ev"]["k"] == "newkeys" and s["res"] == "ok" and any(o["t"] == "pong" for o in s["out"]):
                    rekeys += 1
    missing = sorted(NEED_EVENTS - evs) + sorted("out:" + x for x in NEED_OUT - outs) + sorted("res:" + x for x in NEED_RES - res) \
        + sorted("wait:" + x for x in NEED_WAIT - wait)
    for a in ("kexinit:es", "kexinit:s", "kexinit:", "authreq:pk:rsa-sha2-512", "authreq:pk:ssh-rsa", "authreq:none"):
        if a not in attrs:
            missing.append("attr:" + a)
    for name, v in (("version lines accepted", accepted), ("version lines rejected", rejected), ("flush after failed kex", flush),
                    ("bounded-queue alternatives", alts), ("pongs flushed at NEWKEYS", rekeys)):
        if v == 0:
            missing.append(name)
    ctx.extra["covered_event_kinds"] = sorted(evs)
    ctx.extra["covered_packet_attributes"] = sorted(attrs)
    ctx.extra["histories_ending_in"] = {"version_accepted": accepted, "version_rejected": rejected, "flush_after_failed_kex": flush,
                                        "queue_bound_alternative": alts, "eof_class_weak": weak, "pongs_flushed_at_newkeys": rekeys}
    if missing:
        raise vlib.Infra("vacuity: the replayed histories never exercise %s" % ", ".join(missing))


def run(ctx):
    ctx.level = "model_checking"
    ctx.rule = ("cases = histories emitted by TLC from SSHPrelude (one per model transition out of every distinct abstract state: both "
                "roles of the library, peer with / without strict KEX and ext-info-c, small / default re-key threshold; version phase over "
                "byte-class runs with the real limits 255 and 1024; packet phase over 25 packet kinds, bursts of 16 / 17 and ping runs "
                "around 64 / 81 / 82 with the real constants; plus seeded simulated histories), each replayed on the real NewClientConn / "
                "NewServerConn against the independent raw peer and compared per step; distinct = distinct history.  Long random "
                "sessions recorded from the real code are validated as traces of the same specification.")
    ctx.assumptions = [
        "each event runs to quiescence (testing/synctest: every goroutine durably blocked) before the next one; events whose outcome "
        "would depend on scheduling inside the library are not played (a PING as the very packet that triggers a library-initiated "
        "re-key; packets other than PING / IGNORE / DEBUG / KEXINIT / DISCONNECT while the mux is blocked in the re-key window)",
        "the peer is harness/x07/x07_peer.go: curve25519-sha256, ssh-ed25519, aes128-ctr + hmac-sha2-256, strict KEX; it hashes the "
        "identification strings the MODEL says are hashed, so a library that hashes anything else fails the host key signature",
        "error values are compared by class: *disconnectMsg with reason and message (recognised by its text, the type is unexported), "
        "io.EOF (also 'some error' where a write was pending), other; error texts are not compared",
        "when a re-key fails the packets queued during it may still be written before the connection closes: an in-order prefix of the "
        "pending PONGs is accepted there (kexLoop pushes pendingPackets even after enterKeyExchange returned an error)",
        "the application services Requests and NewChannels (DiscardRequests / Reject); user authentication is 'none' (server: "
        "NoClientAuth) -- C32 / C33 / C34 cover authentication proper; the strict initial key exchange is C30's, negotiation C28's",
    ]
    if ctx.replay:
        rp = json.load(open(ctx.replay))
        det = (rp.get("violation") or {}).get("detail") or {}
        if isinstance(det, dict) and det.get("trace"):
            ctx.validate_traces("SSHPrelude_Trace", [det["trace"]], timeout=900)
            return
        case = det.get("case") if isinstance(det, dict) else None
        if not case:
            raise vlib.Infra("replay file has no history")
        ctx.absorb(ctx.go_test("x07", "TestReplay$", cases=[case], timeout=600, env={"VERIF_X07_PAR": 1}))
        return

    q = not ctx.thorough
    mcs = ["VerQ", "PktQ"] if q else ["VerT", "PktT", "VerQ", "PktQ"]
    gens = [("GenVerQ", None, None), ("GenPktQ", None, None)] if q else [("GenVer", None, None), ("GenPktT", None, None)]
    gens.append(("Sim", ctx.pick(60, 3000), 40))

    def mc(name):
        return lambda: ctx.tlc_must_hold("SSHPrelude_MC", cfg="SSHPrelude_%s.cfg" % name, timeout=2400, workers=ctx.pick(4, 12))

    def asis(name):
        def f():
            r = ctx.tlc("SSHPrelude_MC", cfg="SSHPrelude_%s.cfg" % name, timeout=900, workers=2, expect_violation=True, count=False)
            if r.violated != "NoStall":
                raise vlib.Infra("SSHPrelude_%s.cfg (the specification with the implementation's stalls) should violate NoStall, TLC says %r"
                                 % (name, r.violated))
            return r
        return f

    def gen(name, sim, depth):
        return lambda: ctx.tlc_must_hold("SSHPrelude_MC", cfg="SSHPrelude_%s.cfg" % name, workers=1, timeout=2400, count=False,
                                         simulate=sim, depth=depth)

    tp = ctx.tmp("x07_traces.ndjson")
    jobs = [("mc:" + m, mc(m)) for m in mcs] + [("asis:" + a, asis(a)) for a in ("AsIsK1", "AsIsK2")] + [("gen:" + g[0], gen(*g)) for g in gens]
    box = {}

    def tlc_all():
        try:
            box["res"] = _par(ctx, jobs)
        except Exception as e:      # noqa
            box["err"] = e
    th = threading.Thread(target=tlc_all)
    th.start()
    # meanwhile: the long sessions (go_test is not re-entrant: one at a time, in this thread)
    try:
        res_l = ctx.go_test("x07", "TestLong$", env={"VERIF_TRACE_OUT": tp, "VERIF_X07_LONG": ctx.pick(60, 3000)}, timeout=1500)
    finally:
        th.join()
    if "err" in box:
        raise box["err"]
    res = box["res"]
    for m in mcs:
        r = res["mc:" + m]
        ctx.log("TLC %s: %d generated, %d distinct, %.0fs" % (m, r.generated, r.distinct, r.wall))
    ctx.notes.append("SSHPrelude_AsIsK1.cfg / SSHPrelude_AsIsK2.cfg (the specification with the implementation's stalls K1: mux.loop "
                     "blocked in writePacket during a re-key, K2: readLoop blocked on `incoming` after the consumer has gone): TLC reports "
                     "the NoStall counterexamples, as it must")

    cases = []
    for g in gens:
        r = res["gen:" + g[0]]
        if not r.traces:
            raise vlib.Infra("generator %s produced no histories" % g[0])
        ctx.log("%s: %d histories (%.0fs)" % (g[0], len(r.traces), r.wall))
        tr = r.traces
        cap = ctx.pick({"GenVerQ": 4000, "GenPktQ": 9000, "Sim": 1500}.get(g[0], 5000), 40000 if g[0] == "Sim" else 10 ** 9)
        if len(tr) > cap:               # seeded sample of the witnesses
            random.Random(ctx.seed * 7919 + len(tr)).shuffle(tr)
            tr = tr[:cap]
        cases.extend(tr)
    ctx.extra["histories_replayed"] = len(cases)
    coverage_of(ctx, cases)

    lg = dict(res_l)
    lg["evaluations"] = 0
    lg["distinct"] = 0
    ctx.absorb(lg, validated=False)
    traces = []
    if os.path.exists(tp):
        with open(tp) as fh:
            for line in fh:
                traces.append(json.loads(line))
    if not traces and not res_l.get("violations"):
        raise vlib.Infra("x07 long-session driver recorded no traces")
    ctx.log("recorded %d long sessions, %d events" % (len(traces), sum(len(t) for t in traces)))
    ctx.extra["recorded_long_sessions"] = len(traces)

    chunks = [traces[i:i + 150] for i in range(0, len(traces), 150)]

    def validate(k, n):
        def f():
            for c in chunks[k::n]:
                ctx.validate_traces("SSHPrelude_Trace", c, timeout=1200, max_rejects=3)
        return f

    nval = ctx.pick(1, 4)
    box2 = {}

    def val_all():
        try:
            _par(ctx, [("validate%d" % k, validate(k, nval)) for k in range(nval)])
        except Exception as e:      # noqa
            box2["err"] = e
    th2 = threading.Thread(target=val_all)
    th2.start()
    try:
        rr = ctx.go_test("x07", "TestReplay$", cases=cases, timeout=2400, env={"VERIF_X07_PAR": ctx.pick(6, 10)})
    finally:
        th2.join()
    if "err" in box2:
        raise box2["err"]
    ctx.absorb(rr)
    ctx.exhaustive = False
