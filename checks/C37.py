"""C37 -- remote forward listeners never hang on close (ssh/tcpip.go, ssh/streamlocal.go).

Specs: spec/SSHForward.tla (the design after fixes/C37-forward-deadlock.diff: lookup under the list
mutex, send outside it selecting on entry.closed, remove by entry identity, pending forwards rejected)
and spec/SSHForward_Old.tla (faithful to the code before the fix: send on the 1-buffered channel while
holding the mutex, remove by address, plain receive in Accept).  Same variables and property names.

1. TLC model-checks SSHForward exhaustively (R1 exact delivery / spurious never queued / every open decided:
   delivered or rejected, none left without an answer once its listener is closed, R2 Close
   returns -- temporal and as "never quiescent with a Close pending", R3 Accept after Close errs and
   returns, no blocking channel operation under the mutex, nothing left queued for a closed listener).
2. TLC checks that SSHForward_Old violates R2 and R3 (and R3 with duplicate addresses) -- the model of
   the current code must exhibit the counterexamples, otherwise the model drifted -- and satisfies R1.
3. Binding R: TLC enumerates every settled schedule of external events (Listen, peer opens, Accept,
   Close) up to a bound from SSHForward, the schedules of SSHForward_Old that end with Close stuck, and
   long random schedules (20 opens, 30 events); harness/c37 drives each on a real ssh.Client <-> real ssh
   server connection over an in-memory conn, waits for process quiescence after every event (all
   goroutines parked -- no timers, no network -- so a pending call is a hang, and the goroutine dump says
   where), judges the property on what the real code did, and compares with the model's prediction.
3c. spec/SSHForwardBacklog.tla: the bounded queues mux.loop -> incomingChannels -> handleChannelOpens -> handler channel ->
   forward() -> listener slot and the multi-step Close (remove, cancel request, await reply through the same read loop) per
   listener kind; TLC (scaled capacities): one listener -- Close always returns; two -- a stuck Close has removed its entry;
   swapped unix order (cancel before remove) deadlocks; histories generated at the real capacities (2 x 20, 1 x 40 opens,
   nobody in Accept, Close in every order) replayed on the real client (TestBacklog).
4. A concurrent stress run (no settling; opens, Accepts and Closes race on 4 Ps) judged by the property."""
import json, os, re, threading
import vlib

SIGS_KNOWN_DEFECT_DOC = {
    "close-blocked-on-list-mutex-held-by-forward-send": "R2: Close blocked on the list mutex held by forward() blocked in its channel send",
    "accept-after-close-returns-conn:buffered-before-close": "R3: Accept after Close returns the forward that was buffered when Close ran",
    "accept-after-close-wrong:duplicate-address": "R3: with two listeners for one address Close removes the other listener's entry",
}


def _cfg(name, **subst):
    txt = open(os.path.join(vlib.VERIF, "spec", name)).read()
    for k, v in subst.items():
        txt, n = re.subn(r"(?m)^(\s*%s\s*=\s*)\S+$" % k, r"\g<1>%s" % v, txt)
        if n != 1:
            raise vlib.Infra("cannot substitute %s in %s" % (k, name))
    return txt


def _sched(c):
    return ",".join(c["prereg"]) + " " + " ".join(
        "%s(%s)" % (h["ev"]["e"], h["ev"]["t"] if h["ev"]["e"] == "open" else h["ev"]["l"]) for h in c["hist"])


def _proj(c):
    def snap(s):
        return (tuple("p" if x in ("inflight", "buffered") else x for x in s["ost"]),
                tuple((a["l"], a["res"], a["o"], a["after"]) for a in s["acalls"]), tuple(sorted(s["cpc"].items())))
    return (_sched(c), tuple(snap(h["pre"]) for h in c["hist"]), snap(c["final"]))


def _parallel(jobs):
    """jobs: list of (key, thunk); run thunks in threads; re-raise the first failure."""
    res, errs = {}, []
    sem = threading.Semaphore(8)
    def work(k, f):
        try:
            with sem:
                res[k] = f()
        except BaseException as e:      # noqa
            errs.append((k, e))
    ths = [threading.Thread(target=work, args=j) for j in jobs]
    for t in ths:
        t.start()
    for t in ths:
        t.join()
    if errs:
        raise errs[0][1]
    return res


def _zero_cov(r):
    """actions whose FINAL coverage count is zero (interim coverage reports are ignored)"""
    import re as _re
    last = {}
    for m in _re.finditer(r"(?m)^<(\w+) line \d+, col \d+ to line \d+, col \d+ of module \w+>: (\d+):(\d+)$", r.raw):
        last[m.group(1)] = int(m.group(3))
    return sorted(k for k, v in last.items() if v == 0 and k != "Init")


def run(ctx):
    ctx.level = "model_checking"
    ctx.rule = ("cases = settled schedules of external events (Listen, peer channel opens per target, Accept call, Close call) "
                "enumerated exhaustively by TLC from SSHForward up to the stated number of events per listener configuration "
                "(one listener; two tcp; tcp+unix with the same address string; two listeners for one address; three), the "
                "schedules of SSHForward_Old ending with Close stuck, TLC -simulate schedules with up to 20 opens / 30 events, and "
                "seeded concurrent stress plans; each replayed on a fresh real client/server pair with one of 3 concrete address "
                "variants; distinct = distinct (model, listener configuration, schedule, variant)")
    ctx.assumptions = [
        "the peer grants every forward request and answers cancel requests (the harness server does)",
        "at most 20 forwarded opens are outstanding, fewer than the mux/handler channel buffers (2 x chanSize=16) in front of handleChannels",
        "quiescence of the test process (every goroutine running ssh or harness code parked; in-memory transport, no timers) is final: a call still pending then never returns",
        "two handleChannels goroutines per client (tcp, unix) as in Client.handleForwards; entry channel capacity 1",
    ]
    if ctx.replay:
        return _replay(ctx)

    q = not ctx.thorough
    W = 8
    SMALL = dict(heap="2g")
    # ---- 1+2: model checking (TLC runs of this phase run concurrently, at most 6 JVMs at a time)
    mc_new = ["SSHForward_OneQ.cfg"] if q else ["SSHForward_One.cfg", "SSHForward_Two.cfg", "SSHForward_Mix.cfg", "SSHForward_Dup.cfg"]
    jobs = []
    for cfg in mc_new:
        jobs.append(("new:" + cfg, (lambda cfg=cfg: ctx.tlc_must_hold("SSHForward_MC", cfg=cfg, workers=W, timeout=1500,
                                                                      note="repaired design: invariants + liveness"))))
    if q:
        # tcp + unix listener (both dispatcher goroutines), one open, in the quick tier; the larger instances in the thorough tier
        jobs.append(("new:MixQ", lambda: ctx.tlc_must_hold("SSHForward_MC", cfg_text=_cfg("SSHForward_Mix.cfg", MaxOpens=1), workers=4, timeout=600,
                                                           note="repaired design, tcp+unix listeners, 1 open: invariants + liveness", **SMALL)))
    old_expect = {"SSHForward_Old_R2.cfg": "NoCloseStuck", "SSHForward_Old_R3.cfg": "R3_AcceptAfterCloseErr"}
    if not q:
        old_expect.update({"SSHForward_Old_Dup.cfg": "NoAcceptAfterCloseStuck", "SSHForward_Old_Lock.cfg": "NoBlockingUnderLock"})
    for cfg in old_expect:
        jobs.append(("old:" + cfg, (lambda cfg=cfg: ctx.tlc("SSHForward_Old_MC", cfg=cfg, workers=2, timeout=600, expect_violation=True,
                                                            note="model of the current code: counterexample expected", **SMALL))))
    # sharpness of the decidedness invariant: a design whose forward() swallows the closed case must be caught by TLC
    jobs.append(("sharp:LostReject", lambda: ctx.tlc("SSHForward_MC", cfg="SSHForward_LostReject.cfg", workers=2, timeout=600, expect_violation=True, count=False,
                                                     note="DSendClosed overridden by DSendClosedLost: R1_Decided must be violated", **SMALL)))
    if not q:
        jobs.append(("old:R1", lambda: ctx.tlc_must_hold("SSHForward_Old_MC", cfg="SSHForward_Old_R1.cfg", workers=W, timeout=1500,
                                                         note="current code satisfies the safety part of R1")))
        jobs.append(("cov", lambda: ctx.tlc("SSHForward_MC", cfg="SSHForward_OneQ.cfg", workers=2, timeout=900, coverage=True, count=False,
                                            note="coverage run (vacuity)")))
    # ---- 3a: generators
    gens = [("SSHForward_MC", "SSHForward_GenOne.cfg", dict(MaxHist=ctx.pick(5, 6), MaxOpens=ctx.pick(3, 4))),
            ("SSHForward_MC", "SSHForward_GenDup.cfg", dict(MaxHist=ctx.pick(4, 5))),
            ("SSHForward_MC", "SSHForward_GenMix.cfg", dict(MaxHist=ctx.pick(4, 5))),
            ("SSHForward_Old_MC", "SSHForward_Old_GenStuckOne.cfg", dict(MaxHist=4))]
    sims = [("SSHForward_GenSimMix.cfg", ctx.pick(30, 300))]
    if not q:
        gens += [("SSHForward_MC", "SSHForward_GenTwo.cfg", dict(MaxHist=5)),
                 ("SSHForward_MC", "SSHForward_GenThree.cfg", dict(MaxHist=4)),
                 ("SSHForward_Old_MC", "SSHForward_Old_GenStuckMix.cfg", dict(MaxHist=4))]
        sims.append(("SSHForward_GenSim.cfg", 300))
    # ---- backlog model (bounded queues between mux.loop and the listeners; multi-step Close per listener kind)
    B = "SSHForwardBacklog_MC"
    bk_hold = ["SSHForwardBacklog_OneTcp.cfg", "SSHForwardBacklog_OneUnix.cfg"]
    for cfg in bk_hold:
        jobs.append(("bk:" + cfg, lambda cfg=cfg: ctx.tlc_must_hold(B, cfg=cfg, workers=4, timeout=900, note="backlog model, one listener: Close returns (invariant + liveness)", **SMALL)))
    for cfg in (["SSHForwardBacklog_TwoMix.cfg"] if q else ["SSHForwardBacklog_TwoTcp.cfg", "SSHForwardBacklog_TwoMix.cfg", "SSHForwardBacklog_TwoUnix.cfg"]):
        kw = dict(cfg_text=_cfg(cfg, MaxPer=2)) if q else dict(cfg=cfg)
        jobs.append(("bk:" + cfg, lambda cfg=cfg, kw=kw: ctx.tlc_must_hold(B, workers=W, timeout=1500,
                     note="backlog model, two listeners: a stuck Close has removed its entry (scaled capacities 1/1, %s opens per listener)" % ctx.pick(2, 4), **kw)))
    bk_expect = {"SSHForwardBacklog_DocUnixCancelFirst.cfg": "NoCloseStuck"}
    if not q:
        bk_expect.update({"SSHForwardBacklog_DocUnixCancelFirst2.cfg": "StuckCloseHasRemoved", "SSHForwardBacklog_FindingTwo.cfg": "NoCloseStuck"})
    for cfg in bk_expect:
        jobs.append(("bkx:" + cfg, lambda cfg=cfg: ctx.tlc(B, cfg=cfg, workers=4, timeout=900, expect_violation=True, count=False,
                                                          note="backlog model: counterexample expected", **SMALL)))
    for cfg in ["SSHForwardBacklog_GenTwoTcp.cfg", "SSHForwardBacklog_GenTwoUnix.cfg", "SSHForwardBacklog_GenTwoMix.cfg",
                "SSHForwardBacklog_GenOneUnix.cfg"] + ([] if q else ["SSHForwardBacklog_GenOneTcp.cfg"]):
        jobs.append(("bkgen:" + cfg, lambda cfg=cfg: ctx.tlc_must_hold(B, cfg=cfg, workers=1, timeout=900, count=False,
                                                                    note="backlog generator at the real capacities 16/16", **SMALL)))
    for mod, cfg, sub in gens:
        jobs.append(("gen:" + cfg, (lambda mod=mod, cfg=cfg, sub=sub: ctx.tlc_must_hold(
            mod, cfg_text=_cfg(cfg, **sub), workers=1, timeout=1500, count=False, note="generator %s %s" % (cfg, sub), **SMALL))))
    for cfg, num in sims:
        jobs.append(("sim:" + cfg, (lambda cfg=cfg, num=num: ctx.tlc(
            "SSHForward_MC", cfg=cfg, workers=1, simulate=num, depth=800, timeout=1500, count=False, note="long random settled schedules", **SMALL))))
    res = _parallel(jobs)

    for cfg, inv in old_expect.items():
        r = res["old:" + cfg]
        if r.violated != inv:
            raise vlib.Infra("SSHForward_Old/%s: expected the model of the current code to violate %s, TLC says %r" % (cfg, inv, r.violated))
    if res["sharp:LostReject"].violated != "R1_Decided":
        raise vlib.Infra("SSHForward_LostReject: expected R1_Decided to be violated, TLC says %r" % res["sharp:LostReject"].violated)
    for cfg, inv in bk_expect.items():
        if res["bkx:" + cfg].violated != inv:
            raise vlib.Infra("%s: expected %s to be violated, TLC says %r" % (cfg, inv, res["bkx:" + cfg].violated))
    ctx.extra["c37_backlog_model_counterexamples"] = dict(bk_expect)
    ctx.extra["c37_old_model_counterexamples"] = {c: v for c, v in old_expect.items()}
    if "cov" in res:
        z = _zero_cov(res["cov"])
        ctx.extra["coverage_actions_never_taken"] = z
        if z:
            ctx.notes.append("actions never taken in the coverage run (vacuity): %s" % z)

    cases, seen = [], set()
    n_old = 0
    for k, r in res.items():
        if not (k.startswith("gen:") or k.startswith("sim:")):
            continue
        if not r.traces:
            raise vlib.Infra("generator %s produced no schedules" % k)
        ctx.log("%s: %d schedules" % (k, len(r.traces)))
        for c in r.traces:
            p = (c["model"], json.dumps(c["laddr"], sort_keys=True), _proj(c))
            if p in seen:
                continue
            seen.add(p)
            cases.append(c)
            n_old += c["model"] == "old"
    cases.sort(key=lambda c: (c["model"] != "old", json.dumps(c["laddr"], sort_keys=True), _sched(c)))
    ctx.log("replaying %d schedules (%d from the current-code model's stuck states)" % (len(cases), n_old))
    # vacuity guard: schedules in which Close(l) is issued while >= 2 opens for l's address are unanswered and no Accept is
    # pending (one queued, one parked inside forward()) must be part of the replay
    n_parked = 0
    for c in cases:
        hit = False
        for h in c["hist"]:
            e = h["ev"]
            if e["e"] != "close":
                continue
            t = c["laddr"][e["l"]]
            sent = [x["ev"]["o"] for x in c["hist"] if x["ev"]["e"] == "open" and x["ev"]["t"] == t and x is not h]
            pend = [o for o in sent if o - 1 < len(h["pre"]["ost"]) and h["pre"]["ost"][o - 1] in ("inflight", "buffered")]
            waiting = any(a["l"] == e["l"] and a["res"] == "waiting" for a in h["pre"]["acalls"])
            if len(pend) >= 2 and not waiting:
                hit = True
        n_parked += hit
    ctx.extra["c37_schedules_close_with_parked_forward"] = n_parked
    if n_parked == 0:
        raise vlib.Infra("no generated schedule closes a listener while a forward is parked in forward(): the decidedness clause would not be exercised")

    # ---- 3b: replay on the real code
    r1 = ctx.go_test("c37", "TestReplay", cases=cases, timeout=1500)
    ctx.absorb(r1)
    ex = r1.get("extra") or {}
    n_hang = ex.get("c37_schedules_with_hang", 0)
    if ex.get("c37_forwards_delivered", 0) == 0 or ex.get("c37_forwards_rejected", 0) == 0:
        raise vlib.Infra("replay delivered %s and rejected %s forwards: the harness is not exercising the code"
                         % (ex.get("c37_forwards_delivered"), ex.get("c37_forwards_rejected")))
    if n_hang:
        ctx.notes.append("the Close-stuck counterexample of SSHForward_Old reproduces on this tree: %d replayed schedules end with Close parked on the list mutex" % n_hang)
    else:
        ctx.notes.append("the counterexamples of SSHForward_Old do not reproduce on this tree; %d/%d schedules match SSHForward's prediction at every step"
                         % (ex.get("c37_conform_new_model", 0), len(cases) - n_old))
    # ---- 3c: backlog histories at the real capacities (2 listeners x 20 un-accepted opens, 1 x 40; Close in every order)
    bcases, bseen = [], set()
    for k, r in res.items():
        if k.startswith("bkgen:"):
            if not r.traces:
                raise vlib.Infra("backlog generator %s produced no histories" % k)
            for c in r.traces:
                key = json.dumps(c, sort_keys=True)
                if key not in bseen:
                    bseen.add(key); bcases.append(c)
    ctx.log("replaying %d backlog histories" % len(bcases))
    rb = ctx.go_test("c37", "TestBacklog", cases=bcases, timeout=1500)
    ctx.absorb(rb)
    bx = rb.get("extra") or {}
    for kind in ("tcp", "unix"):
        if not bx.get("c37_backlog_closes_with_read_loop_blocked_" + kind):
            raise vlib.Infra("no backlog history reached 'mux.loop blocked on incomingChannels' before a Close of a %s listener" % kind)
    # ---- 4: concurrent stress
    r2 = ctx.go_test("c37", "TestStress", timeout=1500, race=False)
    ctx.absorb(r2)
    if ctx.thorough:
        r3 = ctx.go_test("c37", "TestStress", timeout=1500, race=True, env={"C37_STRESS_ITERS": 150, "C37_STRESS_SALT": 1})
        ctx.absorb(r3)
    ctx.exhaustive = False


def _replay(ctx):
    d = json.load(open(ctx.replay))["violation"]["detail"]
    if "case" in d:
        c = dict(d["case"]); c["variant"] = d.get("variant", 0)
        ctx.absorb(ctx.go_test("c37", "TestReplay", cases=[c], timeout=300))
    elif "backlog_case" in d:
        c = dict(d["backlog_case"]); c["variant"] = d.get("variant", 0)
        ctx.absorb(ctx.go_test("c37", "TestBacklog", cases=[c], timeout=300))
    elif "stress_plan" in d:
        ctx.absorb(ctx.go_test("c37", "TestStress", timeout=300, env={"C37_STRESS_PLAN": json.dumps(d["stress_plan"])}))
    else:
        raise vlib.Infra("replay file has neither a case nor a stress plan")
