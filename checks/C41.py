"""C41 -- certificate checks decide the OpenSSH validity rules over the signed bytes.

Spec: spec/SSHCert.tla (+ _MC).  TLC (a) model-checks the transcription of CertChecker.Authenticate /
CheckHostKey / CheckCert (checks in the order of the code) against the property's conjunction over the product
of field classes (use x key kind x certificate type x authority x principals x requested principal x
ValidAfter x ValidBefore on the symbolic time order x critical options x supported options x revocation x
signature class x encoding class of the received bytes), showing the two agree everywhere except the exactly
delimited region of tolerated non-canonical encodings (open findings C41-F6a-d; the int64 time window of the code
before fix 35f0e5b survives only as SSHCert_DocTime.cfg, FixTime = FALSE, an expected counterexample); (b) emits the cases with
both predictions.  The harness builds each case as a real certificate (SignCert; wire-level re-encoding and
re-signing for the signed-bytes clause; ssh-keygen -s as amplifier), feeds it through ParsePublicKey to the real
checkers with a fixed Clock and compares the real decision with the property's conjunction."""
import vlib
from c38_common import par_tlc, run_harness

M = "SSHCert_MC"


def run(ctx):
    ctx.level = "model_checking"
    ctx.rule = ("cases = tuples of field classes enumerated by TLC from SSHCert_MC menus (time grid 7x7 on {0, now-1, now, now+1, "
                "2^63-1, 2^63, 2^64-1}; field product over use, certificate type, authority, principal list, critical options, "
                "supported options, revocation, signature class; encoding classes x bytes-the-CA-signed); each materialised with "
                "boundary and random in-class time values, rotating subject key type (8) and CA key type (8, incl. security-key CAs "
                "signing without user presence), certificates with >= 2 critical options checked 24 times (map iteration order); distinct = distinct (case, time variant); plus random-field SignCert round trips "
                "and ssh-keygen -s issued certificates")
    ctx.assumptions = [
        "the verdict is taken against the property's conjunction as evaluated by TLC (Literal) for byte strings that ParsePublicKey delivers as certificates; byte strings the parser rejects are outside the accept-iff clause (canonical SignCert/ssh-keygen output must parse)",
        "right type / accepted authority are vacuous for a direct CheckCert call (it checks neither); source-address is treated as a supported critical option (enforced by serverAuthenticate, not by CheckCert)",
        "authority predicates compare the marshalled SignatureKey with a trusted set; revocation predicates match on the serial",
        "trusted: Go standard library signature primitives, ssh-keygen 9.2 as independent issuer, TLC",
    ]
    if ctx.thorough:
        jobs = [{"cfg": "SSHCert_Full.cfg", "kw": {"workers": 10}}, {"cfg": "SSHCert_Enc.cfg", "kw": {"workers": 10}},
                {"cfg": "SSHCert_Quick.cfg", "kw": {"workers": 4}}, {"cfg": "SSHCert_GenT.cfg", "gen": True}]
        gen = "SSHCert_GenT.cfg"
    else:
        jobs = [{"cfg": "SSHCert_Quick.cfg", "kw": {"workers": 8}}, {"cfg": "SSHCert_GenQ.cfg", "gen": True}]
        gen = "SSHCert_GenQ.cfg"
    res = par_tlc(ctx, M, jobs)
    if ctx.thorough:
        # documentation of the repaired defect C41-T1: the old int64 time window must still contradict the property in the model
        r = ctx.tlc(M, cfg="SSHCert_DocTime.cfg", workers=4, timeout=900, expect_violation=True, count=False,
                    note="documentation (FixTime = FALSE, code before 35f0e5b): expected counterexample to TimeIsLiteral; never replayed on the code")
        if r.violated != "TimeIsLiteral":
            raise vlib.Infra("SSHCert_DocTime.cfg: TLC no longer finds the counterexample that documents the repaired defect C41-T1 (violated=%r)" % r.violated)
    cases = res[gen].traces
    env = {}
    if ctx.replay:
        rep = __import__("json").load(open(ctx.replay))
        d = (rep.get("violation") or {}).get("detail") or {}
        if isinstance(d, dict) and "case" in d:
            cases = [d["case"]]
    if not ctx.have("ssh-keygen"):
        ctx.skipped.append("ssh-keygen not installed: certificates issued by ssh-keygen -s not checked")
    ctx.log("replaying %d cases on the real CertChecker (+ random SignCert round trips, ssh-keygen -s sample)" % len(cases))
    r = run_harness(ctx, "c41", "TestC41$", cases=cases, env=env)
    if ctx.extra.get("skipped"):
        ctx.skipped.append("ssh-keygen: " + str(ctx.extra.pop("skipped")))
    ctx.exhaustive = True
    ctx.notes.append("informational: a host certificate carrying the source-address critical option is accepted by CheckHostKey although "
                     "nothing enforces the option for host certificates (OpenSSH rejects any critical option on a host certificate)")
