"""C44 - OpenPGP messages round-trip, verify and interoperate with GnuPG (partly applicable).

Spec: spec/PGPMessage.tla (+ PGPMessage_MC): a message as a sequence of regions per kind (Encrypt with/without signer,
SymmetricallyEncrypt with/without compression, Sign, DetachSign), the reader (ReadMessage's packet loop, checkReader /
signatureCheckReader, seMDCReader.Close; unknown packet types skipped) with one action per packet, attacker actions Flip(region),
Truncate(region), StripMDC.  TLC checks exhaustively that untouched messages read back (original data, clean end, verified
signature), that every modification of a region covered by an MDC, a signature hash or a key check ends in {read error,
SignatureError, MDC error at EOF} or in a visibly unverified signature state, that altered data never ends clean with a verified
signature, that stripping the MDC never yields the data, and that the reader always reaches an outcome (deadlock check).
Binding R: real messages for key type x cipher x hash x compression, read back, attacked per model action at byte level, read to
EOF and classified; GnuPG 2.2 in both directions as amplifier."""
import vlib


def run(ctx):
    ctx.level = "model_checking"
    ctx.rule = ("model: 6 message kinds x {none, flip(region), truncate(region), stripMDC} x signer known/unknown, all reader interleavings of the damage "
                "manifestations; implementation cases = (kind, key type in {RSA-2048, DSA-1024+ElGamal-1024, ECDSA P-256+RSA, ECDSA P-384+ElGamal-2048; thorough + P-521}, "
                "cipher in {AES-128, AES-256, CAST5} (Encrypt) / + AES-192, 3DES (symmetric), hash in {SHA-256/384/512, SHA-1, RIPEMD-160}, compression in {none, ZIP, ZLIB} "
                "(symmetric)) x plaintext sizes {0, 1, 40, 1000, 8191, 8192, 100000} (quick: a rotating cover selected by VERIF_SEED; thorough: the full product); "
                "attacks on the 40-byte message of every (kind, key, cipher, compression[, hash]) class: flips (quick: first/middle/last byte of each region, one mask; "
                "thorough: every byte up to 2048 per region, masks 01 and 80), truncation inside each region, StripMDC; distinct = distinct (spec, size) resp. "
                "(spec, attack, region, position, mask); canonical text: every text over {a, CR, LF} of length <= 5 (quick) / <= 6 (thorough) under every way of cutting it into Write "
                "calls (TLC), the cuts with <= 3 chunks replayed on NewCanonicalTextHash; text-mode detached signatures over 5 CRLF texts (incl. 100 kB with a CR at offsets "
                "32767 and 65535) signed and verified through every pair of 6 readers (memory, plain 32 KiB, byte-wise, cut after every CR, seeded, 7-byte), text-mode one-pass "
                "messages read with 1/2/3/7/8/4096-byte and after-CR reads; partial body lengths: every write pattern of PGPPartial_MC (message sizes around header+size = 2^k for "
                "k = 9, 13, 15, 16, 17 (thorough + 20, 22; in the model also 2^30 and beyond), each as ONE Write, in 32 KiB, 4 KiB, 100-byte and 1-byte pieces) fed to Sign with the "
                "literal packet's length octets compared with the model's, Sign/Encrypt/Encrypt+Sign/SymmetricallyEncrypt(+compression) of 65522..131077 (thorough to 4 MiB) "
                "bytes as one Write and as 32 KiB pieces, and hand-built literal packets with every partial length octet 0xe0..0xf1 (thorough ..0xf6) in 5 chunkings x 6 closing lengths")
    ctx.assumptions = [
        "numeric correctness of RSA, ElGamal, DSA, ECDSA, CFB/OCFB, S2K and the hash functions is outside the model (exercised only through round trips and GnuPG interop)",
        "regions no mechanism of RFC 4880 covers are modelled as unprotected and only explored: low bits of MPI bit counts (session-key and signature packets), DES parity bits "
        "in the last block of an encrypted 3DES session key, the length octets of one-pass and signature packets (packet.Read does not enforce them), the one-pass "
        "packet's public-key-algorithm octet and non-zero variants of its nested flag, the literal header (format, file name, date) and the unhashed issuer subpacket of the "
        "trailing signature in clear-signed (Sign) messages",
        "a signed message whose one-pass packet no longer leads to a known key is read without verification and reports that through IsSigned/SignedBy (documented API): "
        "class 'unverified', acceptable unless an MDC covers the region",
        "gpg 2.2.x is the independent implementation (amplifier); its digest policy (no SHA-1/RIPEMD-160 data signatures, ECDSA digests as wide as the curve) limits the signed combinations sent to it",
        "parser totality (C45) is not claimed",
    ]
    # three independent TLC runs, concurrently
    import concurrent.futures
    jobs = {"msg": dict(module="PGPMessage_MC", cfg="PGPMessage_All.cfg", workers=2, coverage=ctx.thorough, timeout=600),
            "canon": dict(module="CanonText_MC", cfg=ctx.pick("CanonText_L5.cfg", "CanonText_L6.cfg"), workers=2, timeout=900),
            "partial": dict(module="PGPPartial_MC", cfg=ctx.pick("PGPPartial_Q.cfg", "PGPPartial_T.cfg"), workers=2, timeout=900)}
    with concurrent.futures.ThreadPoolExecutor(max_workers=3) as ex:
        futs = {k: ex.submit(ctx.tlc_must_hold, **kw) for k, kw in jobs.items()}
        tl = {k: f.result() for k, f in futs.items()}
    r = tl["msg"]
    if ctx.thorough and r.coverage_zero:
        ctx.notes.append("PGPMessage actions never taken: %s" % r.coverage_zero)
    if not r.traces:
        raise vlib.Infra("PGPMessage generator produced nothing")
    classes = {}
    for t in r.traces:
        if t["known"]:
            classes.setdefault("%s|%s|%s" % (t["kind"], t["a"], t["r"]), set()).add(t["class"])
    ctx.extra["model_outcome_table_rows"] = len(classes)
    ctx.extra["model_rows_allowing_silent_after_modification"] = sorted(k for k, v in classes.items() if "silent" in v and "|none|" not in k)
    # canonical text (text-mode signatures) as a state machine over chunked input: chunking invariance for every way of cutting every
    # text over {a, CR, LF} up to the bound; the (text, cut) cases with at most 3 chunks go to the real NewCanonicalTextHash
    ct = tl["canon"]
    if not ct.traces:
        raise vlib.Infra("CanonText generator produced nothing")
    if ctx.thorough:
        doc = ctx.tlc("CanonText_MC", cfg="CanonText_ValueReceiver.cfg", workers=1, expect_violation=True, count=False, timeout=300,
                      note="documentation: a wrapper that forgets the CR state between Write calls is refuted")
        if doc.ok or doc.violated != "ChunkInvariant":
            raise vlib.Infra("CanonText_ValueReceiver.cfg no longer yields the documented counterexample: %s" % doc.violated)
    import json
    canon_path = ctx.tmp("canon_cases.ndjson")
    with open(canon_path, "w") as fh:
        for c in ct.traces:
            fh.write(json.dumps(c, separators=(",", ":")) + "\n")
    ctx.extra["canonical_text_cases"] = len(ct.traces)
    # partial body lengths: framing rule and round trip over write patterns around every chunk-size boundary (exponents up to 30 in the model)
    pp = tl["partial"]
    if not pp.traces:
        raise vlib.Infra("PGPPartial generator produced nothing")
    if ctx.thorough:
        doc = ctx.tlc("PGPPartial_MC", cfg="PGPPartial_Mask0f.cfg", workers=1, expect_violation=True, count=False, timeout=300,
                      note="documentation: a reader masking the partial length octet with 0x0f is refuted")
        if doc.ok or doc.violated != "RoundTrip":
            raise vlib.Infra("PGPPartial_Mask0f.cfg no longer yields the documented counterexample: %s" % doc.violated)
    partial_path = ctx.tmp("partial_cases.ndjson")
    with open(partial_path, "w") as fh:
        for c in pp.traces:
            fh.write(json.dumps(c, separators=(",", ":")) + "\n")
    ctx.extra["partial_length_patterns"] = len(pp.traces)
    have_gpg = ctx.have("gpg")
    if not have_gpg:
        ctx.skipped.append("gpg not installed: interop clauses (GnuPG accepts / GnuPG-produced messages are accepted) not exercised")
    res = ctx.go_test("c44", "TestC44$", cases=r.traces, timeout=ctx.pick(600, 1800),
                      env={"VERIF_C44_CANON": canon_path, "VERIF_C44_PARTIAL": partial_path, "VERIF_C44_GPG": 1 if have_gpg else 0, "VERIF_C44_GPGMAX": ctx.pick(24, 400)})
    ctx.absorb(res)
    # vacuity guard: partial chunks of 2^16 octets and more must have been put before the reader (and, unless a violation says why not, read back)
    if not ctx.replay and (not ctx.extra.get("c44_partial_chunks_ge16_exercised")
                           or (not ctx.violations and not ctx.extra.get("c44_partial_chunks_ge16_read_back"))):
        raise vlib.Infra("vacuity guard: no partial chunk with exponent >= 16 was read back")
    if have_gpg and not (ctx.extra.get("c44_gpg_accepts_go") and ctx.extra.get("c44_go_accepts_gpg")):
        ctx.skipped.append("gpg present but no interop case completed (key import failed?)")
    ctx.exhaustive = True
