"""Self-test of binding T plumbing (not a property): TraceDemo traces, one corrupted."""
def run(ctx):
    good = [[{"ev": "enq", "x": 1}, {"ev": "enq", "x": 2}, {"ev": "deq", "x": 1, "len": 1}],
            [{"ev": "enq", "x": 3}, {"ev": "deq", "x": 3, "len": 0}]]
    n = ctx.validate_traces("TraceDemo_Trace", good)
    assert n == 2 and not ctx.violations, (n, ctx.violations)
    bad = [good[0], [{"ev": "enq", "x": 3}, {"ev": "deq", "x": 2, "len": 0}], good[1],
           [{"ev": "enq", "x": 0}, {"ev": "enq", "x": 0}, {"ev": "enq", "x": 0}, {"ev": "enq", "x": 0}]]
    n = ctx.validate_traces("TraceDemo_Trace", bad)
    assert n == 2 and len(ctx.violations) == 2, (n, ctx.violations)
    print("selftest: corrupted traces rejected:", [v["sig"] for v in ctx.violations])
    ctx.violations = []
    ctx.samples = good
    ctx.evaluations = 4; ctx.distinct = 4
