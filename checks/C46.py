"""C46 - ASCII armor and cleartext signatures round-trip.

Specs: spec/Armor.tla (+ Armor_MC): block layout, radix-64 and CRC-24 defined executably (ASSUMEd RFC 4648 /
CRC-24/OPENPGP vectors), a transcription of armor.Decode + reading Body to EOF, mutations (single bit of the
body/CRC region, CRC line replaced, CRC line dropped).  spec/ClearSign.tla (+ ClearSign_MC): the dash-escaping
writer as a byte-wise state machine, Decode's line loop, canonical_text.go, and the declarative canonical form.

TLC (a) model-checks round trip / exact characterisation of representable header maps / rejection of damaged
blocks / shape of the encoding, and for clearsign Decode(Encode(t)) = canonical(t), "what the verifier hashes
is what the signer hashed", escape safety, idempotence, agreement with the literal RFC reading;
(b) emits every case with the model's predictions.  The harness checks its Go transcription against every
TLC case, then drives the real armor and clearsign packages (and openpgp.CheckDetachedSignature, and
`gpg --verify` as amplifier) and compares at the level of the property; bodies/texts up to 10 kB go through the
validated transcription."""
import concurrent.futures, json
import vlib


def _merge_armor(traces):
    """flip lines carry (id, pos, bit, prediction) only: attach them to the undamaged case with the same id"""
    cases, by_id = [], {}
    for t in traces:
        if t.get("k") != "flip":
            cases.append(t)
            if t.get("k") == "none":
                by_id[json.dumps(t["id"])] = t
    nflips = 0
    for t in traces:
        if t.get("k") == "flip":
            c = by_id.get(json.dumps(t["id"]))
            if c is None:
                raise vlib.Infra("flip for unknown armor input %r" % (t["id"],))
            c.setdefault("flips", []).append([t["pos"], t["bit"], 1 if t["ok"] else 0, 1 if t["afterPad"] else 0])
            nflips += 1
    return cases, nflips


def run(ctx):
    ctx.level = "model_checking"
    ctx.rule = ("armor cases = (type, header list, body, mutation) enumerated by TLC from Armor_MC: bodies of every length 0..100 (arithmetic pattern; "
                "all-zero/all-0xff at line boundaries), 4 block types, every single-header map with key and value over {a, space, ':'} of length <= 2 (quick: 169) / <= 3 "
                "(thorough: 1600) and 338 two-header maps, each undamaged / with 3 other well-formed CRC values / without CRC line, and every single-bit flip of "
                "the region first body character .. last CRC character (quick: body lengths {0,1,2,3,49,55}; thorough: 0..100); "
                "clearsign cases = every plaintext over {a, '-', space, tab, CR, LF} of length <= 6 enumerated and checked by TLC in the thorough tier; in the quick tier TLC does length <= 4 (1555 texts) and the Go transcription, validated against those, supplies the predictions for all 9331 texts of length <= 5; "
                "bulk = seeded random bodies/texts up to 10 kB judged by the Go transcription validated against all TLC cases in the same run; "
                "distinct = distinct (input, mutation) resp. distinct plaintext; representable header maps beyond the first are counted as trivial")
    ctx.assumptions = [
        "header lines (key + ': ' + value) and the type line are shorter than the 100-byte bufio buffer of armor.Decode (longer lines are split by ReadLine; not modelled)",
        "block type non-empty and without line breaks; header keys/values without line breaks",
        "encoding/base64 streaming decoder: whether data after a padded quantum is an error depends on Read chunking; the model is lenient there and such cases "
        "(flag afterPad) are judged only at the property level (never accepted with a different body)",
        "the exact text written by Encode (64-column lines, LF line ends) is compared with the model informationally (c46_encoding_differs_from_model); "
        "verdicts come from round trip, CRC-24 value on the wire, and rejection of damaged blocks",
        "clearsign: canonical form = lines split at LF, trailing run of space/tab/CR removed (what the package and GnuPG do); it equals the literal RFC 4880 7.1 "
        "reading whenever every CR is followed by LF (TLC invariant RFCAgrees)",
        "RSA/DSA/ECDSA signing, SHA-2/SHA-1, gpg 2.2.x are trusted base; gpg is an amplifier",
    ]
    jobs = {
        "armor": dict(module="Armor_MC", cfg=ctx.pick("Armor_AllQ.cfg", "Armor_AllT.cfg"), workers=ctx.pick(4, 10)),
        "clear": dict(module="ClearSign_MC", cfg=ctx.pick("ClearSign_L4.cfg", "ClearSign_L6.cfg"), workers=ctx.pick(2, 6)),
    }
    if ctx.thorough:
        # documentation only: the model with the PRE-FIX behaviour switched on still yields the two historical counterexamples
        # (C46-F1 short checksum line skipped, C46-H1 empty header value).  The default model is the repaired code; nothing here is expected of the code.
        jobs["shortcrc"] = dict(module="Armor_MC", cfg="Armor_ShortCrc.cfg", workers=1, expect_violation=True, count=False)
        jobs["oldempty"] = dict(module="Armor_MC", cfg="Armor_OldEmptyValue.cfg", workers=1, expect_violation=True, count=False)
    res = {}
    with concurrent.futures.ThreadPoolExecutor(max_workers=len(jobs)) as ex:
        futs = {k: ex.submit(ctx.tlc, timeout=ctx.pick(600, 2400), **kw) for k, kw in jobs.items()}
        for k, f in futs.items():
            res[k] = f.result()
    for name, inv in (("shortcrc", "CorruptRejected"), ("oldempty", "RoundTrip")):
        sc = res.pop(name, None)
        if sc is not None and (sc.ok or sc.violated != inv):
            raise vlib.Infra("documentation cfg %s no longer yields the historical counterexample: %s" % (name, sc.violated))
    if ctx.thorough:
        ctx.extra["documented_historical_counterexamples"] = ("with PreFixShortCrc / PreFixEmptyValue overridden to TRUE TLC refutes CorruptRejected / RoundTrip "
                                                             "(findings C46-F1 and C46-H1, fixed in /repo 5d307c4 and 91fc6da); a regression of the code shows up as a "
                                                             "VIOLATION with the original signatures")
    for k, r in res.items():
        if not r.ok:      # a counterexample in the design model alone is never a verdict
            raise vlib.Infra("design model %s: %s violated:\n%s" % (k, r.violated, (r.cex or r.raw[-3000:])[:6000]))
        if not r.traces:
            raise vlib.Infra("generator %s produced nothing" % k)
        ctx.log("%s: %d states, %d lines, %.0fs" % (k, r.distinct, len(r.traces), r.wall))
    if ctx.thorough:
        cov = ctx.tlc_must_hold("ClearSign_MC", cfg="ClearSign_L5.cfg", workers=4, coverage=True, count=False, timeout=900)
        if cov.coverage_zero:
            ctx.notes.append("ClearSign actions never taken: %s" % cov.coverage_zero)

    cases, nflips = _merge_armor(res["armor"].traces)
    ctx.log("armor: %d cases, %d modelled bit flips; clearsign: %d texts" % (len(cases), nflips, len(res["clear"].traces)))
    ctx.extra["armor_model_flips"] = nflips
    have_gpg = ctx.have("gpg")
    if not have_gpg:
        ctx.skipped.append("gpg not installed: 'GnuPG verifies the same clearsigned text' not exercised")
    clear_path = ctx.tmp("clear_cases.ndjson")
    with open(clear_path, "w") as fh:
        for c in res["clear"].traces:
            fh.write(json.dumps(c, separators=(",", ":")) + "\n")
    r = ctx.go_test("c46", "TestC46$", cases=cases, timeout=ctx.pick(600, 1800),
                    env={"VERIF_C46_CLEAR": clear_path, "VERIF_C46_GPG_N": (ctx.pick(120, 1500) if have_gpg else 0),
                         "VERIF_C46_ENUMLEN": ctx.pick(5, 0),
                         "VERIF_C46_BULK": ctx.pick(150, 1500), "VERIF_C46_BULKFLIPS": ctx.pick(48, 200),
                         "VERIF_C46_BULKGPG": (ctx.pick(25, 300) if have_gpg else 0)})
    ctx.absorb(r)
    if ctx.extra.get("c46_ref_mismatch"):
        raise vlib.Infra("Go transcription disagrees with TLC on %s cases" % ctx.extra["c46_ref_mismatch"])
    if have_gpg and not ctx.extra.get("c46_gpg_verified"):
        ctx.skipped.append("gpg present but no message was verified (key import failed?)")
    for k in ("c46_encoding_differs_from_model", "c46_escaped_text_differs_from_model", "c46_model_pessimistic", "c46_model_invariant_fails_on_bulk_text",
              "c46_model_decoder_rejects_real_text", "c46_real_decoder_differs_on_model_text"):
        if ctx.extra.get(k):
            ctx.notes.append("%s = %s (informational: the model's byte-exact prediction and the implementation differ where the property does not decide)" % (k, ctx.extra[k]))
    ctx.exhaustive = True
