"""C26 -- SSH packet readers reject tampering and never panic.

Spec: spec/SSHPacket.tla with the attacker actions Flip(i, field), Drop, Dup, Swap, Inject,
Truncate on the in-flight packets.  The reader model accepts by mechanism (what each class of
mode binds its tag to: sequence number, invocation counter, key-stream offset); TLC proves that
in every authenticated mode everything accepted is the packet written at that position and that
nothing is delivered after the first error, exhaustively for <= 3 packets and <= 2 attacker
actions interleaved with reads.  The same model shows, by counterexample, why mode none and
epochs longer than 2^32 packets are outside the claim.  Every fault sequence of the replay
instances is materialised on real bytes (every bit of each field of the first packet, every
truncation length, whole-packet drop/dup/swap, injected bytes) and fed to the real readers."""
import c25_common as cc
import vlib


def run(ctx):
    ctx.level = "model_checking"
    ctx.rule = ("cases = fault sequences enumerated by TLC from SSHPacket.tla (all 51 authenticated modes x payload-length sequences of <= 2 (thorough <= 3) "
                "packets x every single attacker action; 2-action sequences for one representative mode per class; seeded simulated behaviours of "
                "3..5 packets with <= 2 actions), each expanded to byte-level variants: Flip(1, field) = every bit of the field + random "
                "multi-byte corruptions, Truncate = every cut length, Inject = 4 kinds of junk; plus per mode (52 incl. none) random streams, "
                "length-field-targeted streams (43 declared lengths x 9 padding lengths x 4 tails) and randomly corrupted valid streams; "
                "distinct = distinct (mode, lengths, fault sequence, variant) resp. distinct targeted (mode, length, padlen, tail)")
    ctx.assumptions = [
        "MACs/AEAD tags are ideal in the model (a tag verifies iff all its inputs agree); on the real code a forgery by chance has probability <= 2^-96",
        "one key epoch carries fewer than 2^32 packets (SSHPacket_WrapWeak.cfg shows replay across the wrap for EtM and chacha20-poly1305 otherwise); the rekey thresholds of C31 guarantee it",
        "the reader stops at the first error, as handshakeTransport.readLoop does",
        "hook ssh/verif_cipher.go forwards to the unexported code unchanged",
    ]
    q = not ctx.thorough
    gens = ["GenAttackQ", "GenAttackSim"] if q else ["GenAttackT", "GenAttack2", "GenAttackSim"]
    jobs = [
        dict(cfg="AttackQ" if q else "Attack", kw=dict(workers=6 if q else 12, coverage=ctx.thorough), note="exhaustive attacker, interleaved with reads"),
        dict(cfg=gens[0], gen=True, kw=dict(workers=1, timeout=2400)),
        dict(cfg="GenAttackSim", gen=True, kw=dict(workers=1, simulate=ctx.pick(300, 3000), depth=40)),
    ]
    if ctx.thorough:
        jobs += [
            dict(cfg="GenAttack2", gen=True, kw=dict(workers=1, timeout=2400)),
            dict(cfg="AttackNone", expect="DeliveredPrefix", kw=dict(workers=1), note="derivation: mode none cannot detect faults"),
            dict(cfg="WrapWeak", expect="DeliveredPrefix", kw=dict(workers=1), note="derivation: replay across sequence-number wrap (EtM, ChaChaPoly)"),
            dict(cfg="WrapStrong", kw=dict(workers=1), note="EaM/CBC/GCM are safe across the wrap"),
        ]
    else:
        ctx.skipped.append("quick tier: SSHPacket_AttackNone / WrapWeak / WrapStrong / GenAttack2 instances run in the thorough tier only")
    res = cc.par_tlc(ctx, jobs)
    if ctx.thorough:
        zero = res["Attack"].coverage_zero
        if zero:
            raise vlib.Infra("vacuous model checking: actions never taken in SSHPacket_Attack.cfg: %s" % zero)
        ctx.notes.append("coverage: every action of SSHPacket_Attack.cfg (Write, Close, Read, Flip, Drop, Dup, Swap, Inject, Truncate) was taken")
    table, cases = [], []
    for g in gens:
        tb, cs = cc.split_cases(res[g].traces)
        table = table or tb
        cs = [c for c in cs if c.get("ops") and c.get("pkts")]
        if g == "GenAttack2":
            cs = [c for c in cs if len(c["ops"]) == 2]       # single faults are covered for every mode by GenAttackQ/T
        cases += cs
    if not table or not cases:
        raise vlib.Infra("generator produced no behaviours")
    ctx.log("replaying %d fault sequences" % len(cases))
    out = ctx.go_test("c25", "^TestC26$", cases=table + cases, timeout=2400)
    cc.check_table(out)
    ex = out.get("extra") or {}
    ctx.absorb(out)
    # Infra only if the untampered control stream round-trips on the real code and yet fewer packets than the
    # untouched prefix were delivered; a real reader rejecting the untampered stream is reported as a violation.
    if ex.get("tamper_early_error") and not cc.unknown_violations("C26", out):
        raise vlib.Infra("the real reader delivered fewer packets than the untouched prefix (and than the untampered control) in %s variants: model/materialisation wrong" % ex["tamper_early_error"])
    ctx.exhaustive = False
