"""C30 — strict key exchange defeats prefix manipulation (Terrapin).

Spec: spec/SSHStrictKex.tla.  TLC checks S1 (strict on both sides + any attacker plan on the cleartext
prefix => no working connection), S2 (sequence numbers restart at zero at NEWKEYS and stay in step),
S3/S3b (peer-sent IGNORE/DEBUG transparent without strict mode / after the first exchange) over every
attacker plan of <= 1 (quick) or <= 2 (thorough) edits and every noise placement, then every scenario
is replayed on real handshakeTransport pairs through a packet-level man-in-the-middle.

One-sided offers (strict mode is in force only when negotiated): S5 (a real side is strict only if the peer
offered) and S6 (against a legacy peer -- never offers, never strict, keeps counting, sends IGNORE/DEBUG anywhere --
the honest run works and no sequence number is reset at NEWKEYS) are checked over all 48 one-sided scenarios (part of
the Honest config) and every scenario is replayed with an independent raw SSH transport (harness/c30/c30_legacy_peer.go, standard library
only, hmac over the sequence number) against the real ssh.NewServerConn / ssh.NewClientConn.  A documentation
config with the server's rule changed to 'own marker' must violate S5 and S6."""
import vlib

def run(ctx):
    ctx.rule = ("cases = scenarios enumerated by TLC: attacker plans (insert IGNORE/DEBUG/UNIMPLEMENTED/unknown/NEWKEYS at any position, delete, "
                "swap adjacent) of <=1 (quick) / <=2 (thorough) edits on the cleartext prefix of either direction with strict KEX on both sides; "
                "peer noise vectors (0-2 IGNORE/DEBUG before KEXINIT, kex message, NEWKEYS, first application packet) for strict on/off; "
                "attacker vs non-strict peers (conformance only); one-sided offers: legacy client vs real server and legacy server vs "
                "real client (public API), legacy side's noise vector over its four slots, honest network, plus both-offer runs of the "
                "independent peer in either role; distinct = distinct scenarios")
    ctx.assumptions = ["curve25519-sha256 key exchange (three cleartext packets per direction)",
                       "a handshake that does not complete within the scenario timeout counts as failed (never as a violation); "
                       "an honest scenario that times out is infrastructure trouble (exit 2)",
                       "strict-KEX is switched off by a verif hook that removes the marker from the outgoing KEXINIT on both sides",
                       "MAC/AEAD authenticates the sequence number (axiom of the model; C25/C26 check it)",
                       "one-sided scenarios: the legacy peer is an independent implementation of RFC 4253/8731/8709 written with the standard "
                       "library (curve25519-sha256, ssh-ed25519, aes128-ctr, hmac-sha2-256); the real side runs its default configuration "
                       "(it always offers strict KEX) through ssh.NewServerConn (NoClientAuth) / ssh.NewClientConn; honest network only"]
    sets = ["Honest", "Strict1", "Noise", "Weak1"] + (["Strict2"] if ctx.thorough else [])
    for s in sets:
        ctx.tlc_must_hold("SSHStrictKex_MC", cfg="SSHStrictKex_%s.cfg" % s, timeout=1200)
    for s in sets:
        r = ctx.tlc_must_hold("SSHStrictKex_MC", cfg="SSHStrictKex_Gen%s.cfg" % s, workers=1, timeout=1800, count=False)
        if not r.traces:
            raise vlib.Infra("generator %s produced nothing" % s)
        if s == "Honest":
            # the honest base set carries the one-sided scenarios as well (one TLC run): they go to the legacy-peer replay
            legacy = [t for t in r.traces if "legacy" in t["sc"]["kind"].values()]
            r.traces = [t for t in r.traces if "legacy" not in t["sc"]["kind"].values()]
            if not r.traces:
                raise vlib.Infra("generator Honest produced no both-real scenario")
        if ctx.replay:
            import json
            want = json.load(open(ctx.replay))["violation"]["detail"]["scenario"]
            r.traces = [t for t in r.traces if t["sc"] == want]
            if not r.traces:
                continue
        res = ctx.go_test("c30", "TestReplay", cases=r.traces, timeout=1500)
        if ctx.thorough and s != "Strict2":
            for ciph in ("aes128-ctr", "aes128-cbc", "aes128-gcm@openssh.com"):
                res2 = ctx.go_test("c30", "TestReplay", cases=r.traces, timeout=1500, env={"VERIF_CIPHER": ciph})
                ctx.absorb(res2)
        ctx.log("%s: %d terminal states -> %d scenarios replayed" % (s, len(r.traces), res.get("evaluations", 0)))
        if res.get("extra", {}).get("infra_timeouts"):
            ctx.notes.append("%s: %d honest scenarios timed out (not counted)" % (s, res["extra"]["infra_timeouts"]))
        ctx.absorb(res)
    onesided(ctx, legacy)
    ctx.exhaustive = True


def onesided(ctx, all_traces):
    """Strict mode only when negotiated: S5/S6 hold over the one-sided scenarios (SSHStrictKex_Honest.cfg); here they are
    replayed with the independent legacy peer."""
    # the properties can fail: a server that consults its own KEXINIT's marker reaches a state violating S5 and S6
    d = ctx.tlc("SSHStrictKex_MC", cfg="SSHStrictKex_DocOwn.cfg", workers=1, timeout=600, expect_violation=True, count=False,
                note="documentation: with the server's rule 'own marker' S5 and S6 must fail (together, in one state)")
    if d.violated != "S5orS6":
        raise vlib.Infra("SSHStrictKex_DocOwn.cfg: expected S5orS6 to be violated, got %r" % (d.violated,))
    if not all_traces:
        raise vlib.Infra("generator Honest produced no one-sided scenario")
    bad = [t for t in all_traces if not t["success"] or t["strict"]["c"] or t["strict"]["s"]]
    if bad:
        raise vlib.Infra("model: a one-sided honest scenario does not end established and non-strict: %r" % bad[0])
    traces = all_traces
    if ctx.replay:
        import json
        det = json.load(open(ctx.replay))["violation"]["detail"]
        want = det.get("scenario")
        traces = [t for t in traces if t["sc"] == want]
        if not traces:
            if "kind" in (want or {}) and any(v != "real" for v in want["kind"].values()):
                traces = all_traces   # a both-offer run of the independent peer: those always run
            else:
                return
    res = ctx.go_test("c30", "TestLegacy", cases=traces, timeout=600)
    ran = res.get("extra", {}).get("onesided_ran", {})
    ctx.log("OneSided: %d terminal states -> %d runs (%s)" % (len(all_traces), res.get("evaluations", 0), ran))
    ctx.absorb(res)
    if res.get("violations"):
        return
    if not ctx.replay:
        for k in ("server:quiet", "server:noisy", "client:quiet", "client:noisy"):
            if not ran.get(k):
                raise vlib.Infra("one-sided scenarios: nothing ran for %s (ran: %r)" % (k, ran))
    ctl = res.get("extra", {}).get("control_offer_not_honoured", {})
    for role in ("server", "client"):
        if not ctl.get(role, {}).get("fails") and not ctx.violations:
            raise vlib.Infra("sensitivity control: an independent peer that offers strict KEX but keeps counting its sequence numbers was "
                             "NOT refused by the real %s: the harness cannot see a sequence-number disagreement (%r)" % (role, ctl.get(role)))
