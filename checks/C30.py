"""C30 — strict key exchange defeats prefix manipulation (Terrapin).

Spec: spec/SSHStrictKex.tla.  TLC checks S1 (strict on both sides + any attacker plan on the cleartext
prefix => no working connection), S2 (sequence numbers restart at zero at NEWKEYS and stay in step),
S3/S3b (peer-sent IGNORE/DEBUG transparent without strict mode / after the first exchange) over every
attacker plan of <= 1 (quick) or <= 2 (thorough) edits and every noise placement, then every scenario
is replayed on real handshakeTransport pairs through a packet-level man-in-the-middle."""
import vlib

def run(ctx):
    ctx.rule = ("cases = scenarios enumerated by TLC: attacker plans (insert IGNORE/DEBUG/UNIMPLEMENTED/unknown/NEWKEYS at any position, delete, "
                "swap adjacent) of <=1 (quick) / <=2 (thorough) edits on the cleartext prefix of either direction with strict KEX on both sides; "
                "peer noise vectors (0-2 IGNORE/DEBUG before KEXINIT, kex message, NEWKEYS, first application packet) for strict on/off; "
                "attacker vs non-strict peers (conformance only); distinct = distinct scenarios")
    ctx.assumptions = ["curve25519-sha256 key exchange (three cleartext packets per direction)",
                       "a handshake that does not complete within the scenario timeout counts as failed (never as a violation); "
                       "an honest scenario that times out is infrastructure trouble (exit 2)",
                       "strict-KEX is switched off by a verif hook that removes the marker from the outgoing KEXINIT on both sides",
                       "MAC/AEAD authenticates the sequence number (axiom of the model; C25/C26 check it)"]
    sets = ["Honest", "Strict1", "Noise", "Weak1"] + (["Strict2"] if ctx.thorough else [])
    for s in sets:
        ctx.tlc_must_hold("SSHStrictKex_MC", cfg="SSHStrictKex_%s.cfg" % s, timeout=1200)
    for s in sets:
        r = ctx.tlc_must_hold("SSHStrictKex_MC", cfg="SSHStrictKex_Gen%s.cfg" % s, workers=1, timeout=1800, count=False)
        if not r.traces:
            raise vlib.Infra("generator %s produced nothing" % s)
        if ctx.replay:
            import json
            want = json.load(open(ctx.replay))["violation"]["detail"]["scenario"]
            r.traces = [t for t in r.traces if t["sc"] == want]
            if not r.traces:
                continue
        res = ctx.go_test("c30", "TestReplay", cases=r.traces, timeout=1500)
        if ctx.thorough and s != "Strict2":
            for ciph in ("aes128-ctr", "aes128-cbc", "aes128-gcm@openssh.com"):
                res2 = ctx.go_test("c30", "TestReplay", cases=r.traces, timeout=1500, env={"VERIF_CIPHER": ciph})
                ctx.absorb(res2)
        ctx.log("%s: %d terminal states -> %d scenarios replayed" % (s, len(r.traces), res.get("evaluations", 0)))
        if res.get("extra", {}).get("infra_timeouts"):
            ctx.notes.append("%s: %d honest scenarios timed out (not counted)" % (s, res["extra"]["infra_timeouts"]))
        ctx.absorb(res)
    ctx.exhaustive = True
