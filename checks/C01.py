"""C01 - ChaCha20-Poly1305 and XChaCha20-Poly1305 compute the RFC 8439 AEAD.

Specs: spec/AEAD.tla (the construction over the executable definitions PrimChaCha + PrimPoly;
ASSUME of the RFC 8439 2.8.2 vector), spec/AEAD_MC.tla (MacData injective on small alphabets, across
the padding boundary; non-vacuity: false without the length block), spec/AEAD_Gen.tla (boundary grid
of plaintext/AD length classes evaluated by TLC; Open(Seal(x)) = x checked in the model).

The Go harness compares chacha20poly1305.New/NewX Seal and Open byte-for-byte with the TLC-evaluated
outputs (several dst prefix/capacity arrangements), then sweeps lengths with a Go transcription of the
definitions validated against the TLC vectors in the same run; on the amd64 AVX2 assembly path
(tags verif) and on the portable path (tags verif,purego)."""
import concurrent.futures, json
import vlib


def run(ctx):
    ctx.level = "model_checking"
    ctx.rule = ("cases = (variant std/x, key, nonce, plaintext, AD, dst arrangement, code path); TLC-evaluated: the (ptLen, adLen) boundary "
                "grid of AEAD_Gen (asm branch boundaries 16..512 and neighbours, AD 13 and 13 mod 256 with neighbours) with patterned inputs; amplifier: the whole boundary grid "
                "with every dst arrangement, ptLen 0..330 (quick) / 0..1100 (thorough) x AD lengths 0..80, every AD length 0..1100 for 2 (quick) / 6 (thorough) plaintext lengths, "
                "AD lengths 13+256k and neighbours, 4095..4109, 65535..65549, and random long messages up to 70000 / AD up to 600 "
                "with random keys, judged by the Go transcription validated against the TLC vectors; distinct = distinct (path, variant, lengths, seeds)")
    ctx.assumptions = [
        "definition = spec/AEAD.tla over PrimChaCha/PrimPoly evaluated by TLC, anchored by the RFC 8439 2.3.2/2.5.2/2.8.2 and draft-xchacha 2.2.1 vectors",
        "key/nonce space sampled (patterned + seeded random), lengths enumerated within the stated bounds",
        "amd64: AVX2 assembly (useAVX2 is true on this CPU) vs sealGeneric/openGeneric selected by build tag purego; the assembly's non-AVX2 (SSE) "
        "code is unreachable from Go on amd64 and other architectures are not executed",
    ]
    T = "T" if ctx.thorough else "Q"
    jobs = {
        "mc_inj": dict(module="AEAD_MC", cfg="AEAD_MC_Inj.cfg", workers=2, note="MacData injective: strings of length <= 3 over {0,7}, and 14..17 (across the padding boundary)"),
        "mc_nolen": dict(module="AEAD_MC", cfg="AEAD_MC_NoLen.cfg", workers=1, expect_violation=True, note="non-vacuity: without the length block MacData is not injective"),
        "gen": dict(module="AEAD_Gen", cfg="AEAD_Gen_%s.cfg" % T, workers=ctx.pick(8, 12), note="TLC evaluates Seal on the boundary grid; Open(Seal(x)) = x"),
    }
    if ctx.replay:
        jobs = {"gen": jobs["gen"]}
    res = {}
    with concurrent.futures.ThreadPoolExecutor(max_workers=len(jobs)) as ex:
        futs = {k: ex.submit(ctx.tlc, timeout=3000, count=False, **kw) for k, kw in jobs.items()}
        for k, f in futs.items():
            res[k] = f.result()
    for k, r in res.items():
        if k == "mc_nolen":
            if r.violated != "InjectiveNoLen":
                raise vlib.Infra("non-vacuity check failed: InjectiveNoLen was expected to be violated, got %r" % r.violated)
            continue
        if not r.ok:      # a counterexample in the design model alone is never a verdict
            raise vlib.Infra("design model %s: %s violated:\n%s" % (k, r.violated, (r.cex or r.raw[-3000:])[:6000]))
        ctx.states += r.distinct
        ctx.transitions += r.generated
        ctx.log("%s: %d distinct states, %d TRACE lines, %.0fs" % (k, r.distinct, len(r.traces), r.wall))
    cases = res["gen"].traces
    if len(cases) < 100:
        raise vlib.Infra("AEAD_Gen produced too few vectors (%d)" % len(cases))
    for path, tg in (("asm", "verif"), ("purego", "verif,purego")):
        r = ctx.go_test("c01", "TestSeal", cases=cases, tags=tg, timeout=2400, env={"VERIF_C01_PATH": path})
        ctx.log("replay %s: %d evaluations, %d violations" % (path, r.get("evaluations", 0), len(r.get("violations") or [])))
        ctx.absorb(r)
    ctx.exhaustive = False
    ctx.notes.append("lengths exhaustive within the stated bounds; keys/nonces/contents sampled")
