"""Helpers of checks/C15.py (Argon2)."""
import concurrent.futures, json, os, subprocess, sys
import vlib


def par(jobs):
    """Run independent callables in threads (JVM start / go build dominate on the loaded box). jobs: name -> thunk."""
    res = {}
    with concurrent.futures.ThreadPoolExecutor(max_workers=max(1, len(jobs))) as ex:
        futs = {k: ex.submit(f) for k, f in jobs.items()}
        for k, f in futs.items():
            res[k] = f.result()
    return res


def warm_build(ctx):
    """Compile the harness for both builds while TLC is busy (fills the go build cache; failures surface in go_test)."""
    for tags in ("verif", "verif,purego"):
        try:
            subprocess.run([vlib.GO, "test", "-count=1", "-vet=off", "-tags", tags, "-run", "^$", "./c15/"], cwd=os.path.join(vlib.VERIF, "harness"),
                           env=ctx.go_env(), capture_output=True, text=True, timeout=600)
        except Exception:
            pass


def write_ndjson(ctx, name, rows):
    p = ctx.tmp(name)
    with open(p, "w") as fh:
        for x in rows:
            fh.write(json.dumps(x, separators=(",", ":")) + "\n")
    return p


# Third opinion on the oracle: the reference C implementation (libargon2, phc-winner-argon2) through ctypes.
# It only accepts m >= 8p, salt >= 8 bytes, tag >= 4 bytes; everything else is skipped.  Run in a child process
# (a crash of the foreign library must not take the check down).
_LIBARGON2 = r'''
import ctypes, json, sys, collections
try:
    lib = ctypes.CDLL("libargon2.so.1")
except OSError:
    print(json.dumps({"absent": True})); sys.exit(0)
fn = {1: lib.argon2i_hash_raw, 2: lib.argon2id_hash_raw}
import time
budget, t0 = float(sys.argv[2]), time.time()
n = 0; bad = []; skipped = collections.Counter(); maxp = 0
# the library starts 4 * t * p threads per call, which costs milliseconds each on this machine: cheapest cases first,
# stop when the time budget is used up
cases = sorted((json.loads(line) for line in open(sys.argv[1])), key=lambda c: c["p"] * c["t"])
for c in cases:
    if time.time() - t0 > budget:
        skipped["time-budget"] += 1
        continue
    pw, salt, T = bytes.fromhex(c["pw"]), bytes.fromhex(c["salt"]), c["T"]
    out = ctypes.create_string_buffer(T)
    rc = fn[c["y"]](ctypes.c_uint32(c["t"]), ctypes.c_uint32(c["m"]), ctypes.c_uint32(c["p"]), pw, ctypes.c_size_t(len(pw)),
                    salt, ctypes.c_size_t(len(salt)), out, ctypes.c_size_t(T))
    if rc != 0:
        skipped[str(rc)] += 1
        continue
    n += 1
    maxp = max(maxp, c["p"])
    if out.raw.hex() != c["tag"]:
        bad.append({k: c[k] for k in ("y", "t", "m", "p", "T")})
print(json.dumps({"n": n, "bad": bad[:5], "nbad": len(bad), "skipped": skipped, "maxp": maxp}))
'''


def libargon2_opinion(ctx, samplepath, budget):
    """Compare the tags of the sample file (TLC-evaluated table + grid cases judged by harness/c15ref) with libargon2.
    Returns (agreed, skipped-by-error-code) or None if the library is absent.  A disagreement is an oracle problem
    (Infra), never a verdict about golang/crypto."""
    sp = ctx.tmp("libargon2_opinion.py")
    open(sp, "w").write(_LIBARGON2)
    try:
        p = subprocess.run([sys.executable, sp, samplepath, str(budget)], capture_output=True, text=True, timeout=budget + 120)
        r = json.loads(p.stdout)
    except Exception as e:
        ctx.log("libargon2 opinion unavailable: %r" % (e,))
        return None
    if r.get("absent"):
        return None
    if r["nbad"]:
        raise vlib.Infra("the reference C implementation (libargon2) disagrees with the oracle (TLC PrimArgon2 / harness/c15ref) on %d cases, e.g. %s"
                         % (r["nbad"], r["bad"]))
    return r["n"], r["skipped"], r["maxp"]
