"""Helpers shared by checks/C38.py .. C41.py (SSH keys, certificates, signatures, private key files)."""
import concurrent.futures as cf
import vlib


def par_tlc(ctx, module, jobs, max_parallel=6):
    """Run several TLC configs of one module concurrently (JVM start + load make each run cost seconds).
    jobs: list of dicts {cfg, gen (bool: generator run, workers=1, not counted), kw}.
    Returns {cfg: TLCResult}; a model-level counterexample is Infra (never a verdict)."""
    def one(j):
        kw = dict(j.get("kw") or {})
        kw.setdefault("timeout", 1500)
        if j.get("gen"):
            kw.setdefault("workers", 1)
        else:
            kw.setdefault("workers", 8)
        return ctx.tlc(j.get("module", module), cfg=j["cfg"], count=False, note=j.get("note", ""), **kw)
    res, errs = {}, []
    with cf.ThreadPoolExecutor(max_workers=max_parallel) as ex:
        futs = [(j, ex.submit(one, j)) for j in jobs]
        for j, f in futs:
            try:
                res[j["cfg"]] = f.result()
            except vlib.Infra as e:
                errs.append(str(e))
    if errs:
        raise vlib.Infra("; ".join(errs)[:6000])
    for j in jobs:
        r = res[j["cfg"]]
        if not r.ok:
            raise vlib.Infra("design model %s/%s: %s violated (model-level counterexample, not reproduced on code):\n%s"
                             % (module, j["cfg"], r.violated or "postcondition", (r.cex or r.raw[-3000:])[:6000]))
        if j.get("gen"):
            if not r.traces:
                raise vlib.Infra("generator %s/%s produced no cases" % (module, j["cfg"]))
        else:
            ctx.states += r.distinct
            ctx.transitions += r.generated
        ctx.log("TLC %-28s %9d generated %9d distinct %6.1fs%s" % (j["cfg"], r.generated, r.distinct, r.wall,
                "  %d cases emitted" % len(r.traces) if j.get("gen") else ""))
    return res


def run_harness(ctx, pkg, test, cases=None, env=None, timeout=2400):
    """go_test + absorb; the harness must reach its end (Extra["completed"]), otherwise the run is an
    infrastructure failure whatever partial violations it recorded (a dead driver is never a verdict)."""
    r = ctx.go_test(pkg, test, cases=cases, env=env, timeout=timeout, allow_fail=True)
    extra = r.get("extra") or {}
    if not extra.pop("completed", False):
        raise vlib.Infra("harness %s/%s did not run to completion:\n%s" % (pkg, test, r.get("_stdout", "")[-5000:]))
    ctx.absorb(r)
    return r
