# Sanity mutants for C34 (BUILDING.md "Trying your check against a broken golang/crypto"): python3 selftest/c34_mutants.py <name> [--pkgtest]
# applies one edit to a scratch copy of /repo (/tmp/mut_c34), runs bin/check C34 quick against it, removes the copy. All 8 turn the check red.
import sys, subprocess, os, shutil
MUTS = {
 "M1-accept-any-key-in-pkok": ('''			if !bytes.Equal(msg.PubKey, pubKey) {
				return false, nil
			}
''', '''			if len(msg.PubKey) == 0 && !bytes.Equal(msg.PubKey, pubKey) {
				return false, nil
			}
'''),
 "M2-ignore-tried": ('''			if slices.Contains(tried, candidateMethod) {
				continue
			}
''', ''),
 "M3-server-preference-order": ('''	algo, err := findCommon("public key signature algorithm", keyAlgos, serverAlgos, true)''',
                                '''	algo, err := findCommon("public key signature algorithm", serverAlgos, keyAlgos, true)'''),
 "M4-stale-method-list": ('''		lastMethods = methods

''', '''		if lastMethods == nil {
			lastMethods = methods
		}
		methods = lastMethods

'''),
 "M5-no-attempt-bound": ('''		if len(partialSuccess)+len(tried) > maxAuthClientTried {''', '''		if false && len(partialSuccess)+len(tried) > maxAuthClientTried {'''),
 "M6-sign-without-query-result": ('''		if !ok {
			continue
		}

		pubKey := pub.Marshal()''', '''		if !ok && idx > 0 {
			continue
		}

		pubKey := pub.Marshal()'''),
 "M7-compat-retry-immediately": ('''				signers = append(signers, &multiAlgorithmSigner{
					AlgorithmSigner:     as,
					supportedAlgorithms: []string{KeyAlgoRSA},
				})''', '''				signers = slices.Insert(signers, idx+1, Signer(&multiAlgorithmSigner{
					AlgorithmSigner:     as,
					supportedAlgorithms: []string{KeyAlgoRSA},
				}))
				origSignersLen++'''),
 "M8-partial-is-success": ("""			if msg.PartialSuccess {
				return authPartialSuccess, msg.Methods, nil
			}
			return authFailure, msg.Methods, nil
		case msgUserAuthSuccess:
			return authSuccess, nil, nil
		default:
			return authFailure, nil, unexpectedMessageError(msgUserAuthSuccess, packet[0])""", """			if msg.PartialSuccess {
				return authSuccess, msg.Methods, nil
			}
			return authFailure, msg.Methods, nil
		case msgUserAuthSuccess:
			return authSuccess, nil, nil
		default:
			return authFailure, nil, unexpectedMessageError(msgUserAuthSuccess, packet[0])"""),
}
name = sys.argv[1]
a, b = MUTS[name]
d = "/tmp/mut_c34"
shutil.rmtree(d, ignore_errors=True); shutil.rmtree("/tmp/verif_mut_evidence", ignore_errors=True)
subprocess.check_call(["rsync", "-a", "--exclude", ".git", "/repo/", d + "/"])
p = d + "/ssh/client_auth.go"
s = open(p).read()
assert s.count(a) == 1, (name, s.count(a))
open(p, "w").write(s.replace(a, b))
env = dict(os.environ, GOFLAGS="-mod=mod", GOPROXY="off", GOSUMDB="off", GOTOOLCHAIN="local")
r = subprocess.run(["go1.26", "build", "./ssh/"], cwd=d, env=env, capture_output=True, text=True)
print(name, "build rc", r.returncode, r.stderr[-500:])
if "--pkgtest" in sys.argv:
    r = subprocess.run(["go1.26", "test", "-count=1", "-timeout", "600s", "./ssh/"], cwd=d, env=env, capture_output=True, text=True)
    print(name, "package tests rc", r.returncode, r.stdout[-600:])
r = subprocess.run(["bin/check", "C34", "quick"], cwd="/verif", env=dict(os.environ, VERIF_REPO=d, VERIF_SEED="1"), capture_output=True, text=True)
print(name, "check rc", r.returncode)
for l in r.stdout.splitlines():
    if l.startswith("VIOLATION") or l.startswith("  what") or l.startswith("INFRA") or "done rc" in l or "divergent" in l:
        print("   ", l[:400])
shutil.rmtree(d, ignore_errors=True); shutil.rmtree("/tmp/verif_mut_evidence", ignore_errors=True)
shutil.rmtree("/verif/replays/C34", ignore_errors=True)  # replay files written by the mutant run
