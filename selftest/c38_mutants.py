# Sanity mutants for C38-C41 (BUILDING.md "Trying your check against a broken golang/crypto"):
#   python3 selftest/c38_mutants.py <name>|all [--pkgtest]
# applies one edit to a scratch copy of /repo (/tmp/mut_c38_<name>), runs bin/check <ID> quick against it, removes the copy.
# All of them turned the check red when they were tried (2026-09-22); "pkgtest" column = go test ./ssh still passes.
import sys, subprocess, os, shutil

MUTS = {
 # ---- C41 (ssh/certs.go)
 "C41-principals-gt1": ("C41", "ssh/certs.go", "if len(cert.ValidPrincipals) > 0 {", "if len(cert.ValidPrincipals) > 1 {"),                       # pkgtest FAIL
 "C41-validafter-signed-compare": ("C41", "ssh/certs.go", "if unixNow < 0 || uint64(unixNow) < cert.ValidAfter {", "if unixNow < int64(cert.ValidAfter) {"),  # pkgtest ok
 # regressions of the repaired defects: "REVERT:<commit>" reverse-applies the fix commit; expected: VIOLATION with the original signature
 "REVERT-C41-T1": ("C41", "REVERT", "35f0e5b", "time-window:validbefore-in-[2^63,2^64-2]-rejected"),
 "REVERT-C40-M1": ("C40", "REVERT", "bd7db8b", "multialgo:Sign-uses-algorithm-outside-list"),
 "REVERT-C39-K": ("C39", "REVERT", "189504f", "accepted-inconsistent:outerPubOther"),
 # independently seeded changes (patch files under /verif/seeded): all three were missed before the classes they need existed
 "SEEDED-C40-rsa-blob-prefix-dropped": ("C40", "PATCH", "/verif/seeded/C40-rsa-blob-prefix-dropped/patch.diff", ""),   # needs bytes prepended to a blob
 "SEEDED-C39-ecdsa-point-and": ("C39", "PATCH", "/verif/seeded/C39-ecdsa-point-and/patch.diff", ""),                   # needs a point sharing one coordinate with D*G
 "SEEDED-C38-options-leak": ("C38", "PATCH", "/verif/seeded/C38-options-leak-from-skipped-line/patch.diff", ""),
 "SEEDED-C38-b-sk-ecdsa-short-coordinate": ("C38", "PATCH", "/verif/seeded/C38-b-sk-ecdsa-short-coordinate/patch.diff", ""),  # needs boundary keys (short EC coordinates)
 "SEEDED-C41-critical-found-sticky": ("C41", "PATCH", "/verif/seeded/C41-critical-found-sticky/patch.diff", ""),       # needs >= 2 critical options, repeated calls
 "C41-critical-default-accept": ("C41", "ssh/certs.go", "\t\tfound := false\n\t\tfor _, supp := range c.SupportedCriticalOptions {",
                                 "\t\tfound := len(c.SupportedCriticalOptions) == 0\n\t\tfor _, supp := range c.SupportedCriticalOptions {"),  # pkgtest FAIL
 "C41-authenticate-type": ("C41", "ssh/certs.go", "\tif cert.CertType != UserCert {", "\tif cert.CertType == HostCert {"),                      # pkgtest ok
 "C41-reserved-not-signed": ("C41", "ssh/certs.go", "\tc2.Signature = nil\n\tout := c2.Marshal()", "\tc2.Signature = nil\n\tc2.Reserved = nil\n\tout := c2.Marshal()"),  # pkgtest ok
 # ---- C40 (ssh/keys.go, ssh/server.go)
 "C40-rsa-no-format-table": ("C40", "ssh/keys.go", "\tsupportedAlgos := algorithmsForKeyFormat(r.Type())\n\tif !slices.Contains(supportedAlgos, sig.Format) {\n\t\treturn fmt.Errorf(\"ssh: signature type %s for key type %s\", sig.Format, r.Type())\n\t}\n\thash, err := hashFunc(sig.Format)",
                             "\thash, err := hashFunc(sig.Format)"),                                                                        # pkgtest ok (Verify then panics / accepts relabelled signatures)
 "C40-notouch-from-critical": ("C40", "ssh/server.go", "\t\tif _, ok := cert.Extensions[noTouchRequiredExtension]; ok {\n\t\t\treturn true\n\t\t}",
                               "\t\tif _, ok := cert.Extensions[noTouchRequiredExtension]; ok {\n\t\t\treturn true\n\t\t}\n\t\tif _, ok := cert.CriticalOptions[noTouchRequiredExtension]; ok {\n\t\t\treturn true\n\t\t}"),  # pkgtest FAIL
 "C40-multialgo-empty-ok": ("C40", "ssh/keys.go", "\tif algorithm == \"\" {\n\t\talgorithm = underlyingAlgo(s.PublicKey().Type())\n\t}\n\tfor _, algo := range s.supportedAlgorithms {",
                            "\tif algorithm == \"\" {\n\t\treturn true\n\t}\n\tfor _, algo := range s.supportedAlgorithms {"),                # pkgtest ok
 # ---- C38 (ssh/keys.go)
 "C38-no-type-check": ("C38", "ssh/keys.go", "\t\t\tif string(in[:i]) == out.Type() {\n\t\t\t\treturn out, comment, options, rest, nil\n\t\t\t}",
                       "\t\t\tif true {\n\t\t\t\treturn out, comment, options, rest, nil\n\t\t\t}"),                                       # pkgtest FAIL
 "C38-quote-escape": ("C38", "ssh/keys.go", "\t\t\tif b == '\"' && (i == 0 || (i > 0 && in[i-1] != '\\\\')) {", "\t\t\tif b == '\"' {"),         # pkgtest FAIL
 "C38-knownhosts-type": ("C38", "ssh/keys.go", "\t\tif pubKey.Type() != wantType {", "\t\tif false && pubKey.Type() != wantType {"),            # pkgtest FAIL
 "C38-fingerprint-padding": ("C38", "ssh/keys.go", "\thash := base64.RawStdEncoding.EncodeToString(sha256sum[:])", "\thash := base64.StdEncoding.EncodeToString(sha256sum[:])"),  # pkgtest FAIL
 "C38-tab-not-end": ("C38", "ssh/keys.go", "\t\t\tisEnd := !inQuote && (b == ' ' || b == '\\t')", "\t\t\tisEnd := !inQuote && (b == ' ')"),      # pkgtest FAIL
 # ---- C39 (ssh/keys.go)
 "C39-rsa-no-validate": ("C39", "ssh/keys.go", "\t\tif err := pk.Validate(); err != nil {\n\t\t\treturn nil, err\n\t\t}\n\n\t\tpk.Precompute()", "\t\tpk.Precompute()"),  # pkgtest ok
 "C39-ecdsa-no-point-check": ("C39", "ssh/keys.go", "\t\tif x.Cmp(X) != 0 || y.Cmp(Y) != 0 {", "\t\tif x.Cmp(X) != 0 && y.Cmp(Y) != 0 && false {"),  # pkgtest ok
 "C39-wrong-pass-generic-error": ("C39", "ssh/keys.go", "\t\tif w.CipherName != \"none\" {\n\t\t\treturn nil, x509.IncorrectPasswordError\n\t\t}",
                                  "\t\tif w.CipherName != \"none\" && err == nil {\n\t\t\treturn nil, x509.IncorrectPasswordError\n\t\t}"),  # pkgtest FAIL
}


def run(name, pkgtest):
    cid, rel, old, new = MUTS[name]
    d = "/tmp/mut_c38_" + name
    shutil.rmtree(d, ignore_errors=True)
    subprocess.run(["rsync", "-a", "--exclude", ".git", "/repo/", d + "/"], check=True)
    try:
        if rel == "PATCH":
            subprocess.run(["patch", "-p1", "-s", "-i", old], cwd=d, check=True)
        elif rel == "REVERT":
            diff = subprocess.run(["git", "-C", "/repo", "show", old, "--", "ssh"], check=True, capture_output=True, text=True).stdout
            subprocess.run(["patch", "-R", "-p1", "-s"], cwd=d, input=diff, text=True, check=True)
        else:
            p = os.path.join(d, rel)
            s = open(p).read()
            assert s.count(old) == 1, (name, s.count(old))
            open(p, "w").write(s.replace(old, new))
        if pkgtest:
            r = subprocess.run(["go1.26", "test", "-count=1", "-timeout", "900s", "./ssh/"], cwd=d,
                               env=dict(os.environ, GOFLAGS="-mod=mod", GOPROXY="off", GOSUMDB="off", GOTOOLCHAIN="local"), capture_output=True, text=True)
            print(name, "package tests:", "pass" if r.returncode == 0 else "FAIL")
        root = os.path.join(os.path.dirname(os.path.abspath(__file__)), "..")
        rdir = os.path.join(root, "replays", cid)
        before = set(os.listdir(rdir)) if os.path.isdir(rdir) else set()
        r = subprocess.run(["bin/check", cid, "quick"], cwd=root,
                           env=dict(os.environ, VERIF_REPO=d, VERIF_EVIDENCE_DIR="/tmp/verif_mut_evidence_c38"), capture_output=True, text=True)
        print(name, "->", cid, "exit", r.returncode, "(expected 1)")
        if rel == "REVERT":
            import glob, json
            sigs = {json.load(open(f))["violation"]["sig"] for f in glob.glob(os.path.join(rdir, "*.json")) if os.path.basename(f) not in before}
            print("    signatures:", sorted(sigs), "original signature present:", new in sigs)
            if new not in sigs:
                r.returncode = 3
        for l in r.stdout.splitlines():
            if l.startswith("VIOLATION") or l.startswith("  what") or l.startswith("INFRA"):
                print("   ", l[:220])
        for f in (set(os.listdir(rdir)) - before) if os.path.isdir(rdir) else ():
            os.unlink(os.path.join(rdir, f))          # replay files of the mutant run do not belong in the tree
        if os.path.isdir(rdir) and not os.listdir(rdir):
            os.rmdir(rdir)
        return r.returncode
    finally:
        shutil.rmtree(d, ignore_errors=True)
        shutil.rmtree("/tmp/verif_mut_evidence_c38", ignore_errors=True)


if __name__ == "__main__":
    names = list(MUTS) if sys.argv[1] == "all" else [sys.argv[1]]
    bad = [n for n in names if run(n, "--pkgtest" in sys.argv) != 1]
    print("not caught:", bad)
    sys.exit(1 if bad else 0)
